package main

import (
	"fmt"
	"go/token"
	"go/types"
	"reflect"
	"strings"

	"golang.org/x/tools/go/ssa"
)

func init() { propFuncs["C10"] = checkC10 }

const (
	fnFileWrite = "(*history.fileHistory).Write"
	fnOpenHist  = "history.openHist"
)

func osConst(p *Prog, name string) (int64, bool) {
	for _, pk := range p.SSA.AllPackages() {
		if pk.Pkg.Path() == "os" {
			if nc, ok := pk.Members[name].(*ssa.NamedConst); ok {
				return constInt(nc.Value)
			}
		}
	}
	return 0, false
}

// jsonKeys returns the JSON object keys a struct type is encoded with (exported fields).
func jsonKeys(t types.Type) map[string]string {
	out := map[string]string{}
	st, ok := t.Underlying().(*types.Struct)
	if !ok {
		return out
	}
	for i := 0; i < st.NumFields(); i++ {
		f := st.Field(i)
		if !f.Exported() {
			continue
		}
		name := f.Name()
		if tag, ok := reflect.StructTag(st.Tag(i)).Lookup("json"); ok {
			n := strings.Split(tag, ",")[0]
			if n == "-" {
				continue
			}
			if n != "" {
				name = n
			}
		}
		out[name] = f.Name()
	}
	return out
}

func checkC10(c *Ctx) {
	p, r := c.P, c.R
	r.Explanation = "Decided statically on the file-backed history: the append opens the file with O_APPEND|O_CREATE (read-write or write-only) and never O_TRUNC; a record reaches the file through exactly one (*os.File).Write per call whose bytes are the json.Marshal output followed by one '\\n' (record and terminator in one write, optionally preceded by a separator); before that write the function either inspects the file's tail or starts the record with a separator, so an entry appended after a torn record is not glued to it; the error returned after the write is the write's error and earlier failures return their own error; the reader lifts the scanner's 64 KiB token limit (or is not a Scanner), skips undecodable/empty lines without leaving its loop, and does not turn end-of-scan into a failure; the JSON keys written are accepted by the reader's struct and the reader's emptiness test and GetLine use the field the writer fills with the (trimmed) text. NOT decided: the crash-point enumeration itself (what bytes are on disk after a crash at every offset), OS/file-system atomicity of O_APPEND writes, and json round-trip equality for every string."
	r.Trusted = []string{"go/packages type checker", "go/ssa construction", "encoding/json key matching is case-insensitive (stdlib contract)", "rule tables in rlcheck/c10.go"}
	r.Assumptions = []string{"a single write(2) in O_APPEND mode either appends a prefix of the buffer or all of it", "json.Marshal output contains no raw newline (stdlib contract)"}

	W, OH := p.Func(fnFileWrite), p.Func(fnOpenHist)
	r.Rule("C10.anchors", "K0", "anchored functions resolve", 2)
	for n, f := range map[string]*ssa.Function{fnFileWrite: W, fnOpenHist: OH} {
		if f == nil {
			r.Unk("C10.anchors", n, "-", "anchor not found — rule table needs review")
		} else {
			r.OK("C10.anchors", n, p.Pos(f.Pos()), "")
			r.Fn(n)
		}
	}
	if W == nil || OH == nil {
		return
	}

	// ---- append flags (K5)
	r.Rule("C10.append-flags", "K5", "the history file is opened for writing with O_APPEND|O_CREATE and an access mode that can write, never O_TRUNC — in every function of the package", 1)
	oAppend, _ := osConst(p, "O_APPEND")
	oCreate, _ := osConst(p, "O_CREATE")
	oTrunc, _ := osConst(p, "O_TRUNC")
	oWronly, _ := osConst(p, "O_WRONLY")
	oRdwr, _ := osConst(p, "O_RDWR")
	hp := p.Pkg("internal/history")
	var open *ssa.Call
	for _, f := range p.RepoFuncs {
		if f.Package() == nil || hp == nil || f.Package().Pkg != hp.Types {
			continue
		}
		for i, cl := range callsTo(f, true, "os.OpenFile", "os.Create") {
			key := siteKey(f, "open-for-write", i)
			r.CallSites++
			if calleeName(cl) == "os.Create" {
				r.Bad("C10.append-flags", key, p.IPos(cl), "os.Create truncates the history file")
				continue
			}
			fl, ok := constInt(cl.Common().Args[1])
			if !ok {
				r.Unk("C10.append-flags", key, p.IPos(cl), "non-constant open flags")
				continue
			}
			good := fl&oAppend != 0 && fl&oCreate != 0 && fl&oTrunc == 0 && (fl&oWronly != 0 || fl&oRdwr != 0)
			r.Check(good, "C10.append-flags", key, p.IPos(cl), fmt.Sprintf("flags %#x = O_APPEND|O_CREATE|writable, no O_TRUNC", fl),
				fmt.Sprintf("history file opened with flags %#x (O_APPEND=%v O_CREATE=%v O_TRUNC=%v writable=%v): earlier entries can be overwritten or truncated", fl, fl&oAppend != 0, fl&oCreate != 0, fl&oTrunc != 0, fl&oWronly != 0 || fl&oRdwr != 0))
			if f == W {
				open = cl.(*ssa.Call)
			}
		}
	}
	if open == nil {
		r.Unk("C10.append-flags", fnFileWrite+":OpenFile", p.Pos(W.Pos()), "no os.OpenFile call in Write")
		return
	}
	var fileV ssa.Value
	for _, ref := range referrersOf(open) {
		if ex, ok := ref.(*ssa.Extract); ok && ex.Index == 0 {
			fileV = ex
		}
	}

	// ---- single write (K1+K3)
	r.Rule("C10.single-write", "K1", "one (*os.File).Write per record on every path after a successful open; its bytes are json.Marshal's output then one '\\n', in that one call", 3)
	writes := callsTo(W, true, "(*os.File).Write", "(*os.File).WriteString", "(*os.File).WriteAt")
	isW := func(in ssa.Instruction) bool {
		return isCallTo(in, "(*os.File).Write", "(*os.File).WriteString", "(*os.File).WriteAt")
	}
	var theWrite *ssa.Call
	if len(writes) != 1 {
		r.Bad("C10.single-write", fnFileWrite+":write-sites", p.Pos(W.Pos()), fmt.Sprintf("%d write call sites on the history file (want exactly 1): record and terminator may reach the file in separate writes", len(writes)))
	} else {
		theWrite = writes[0].(*ssa.Call)
		r.OK("C10.single-write", fnFileWrite+":write-sites", p.IPos(theWrite), "one write site")
	}
	if theWrite != nil {
		// every path from successful open to return passes the write (open error edge excluded by facts)
		bf := blockFacts(W)
		var openErr ssa.Value
		for _, ref := range referrersOf(open) {
			if ex, ok := ref.(*ssa.Extract); ok && ex.Index == 1 {
				openErr = ex
			}
		}
		var missRet ssa.Instruction
		pathAvoiding(W, open, func(in ssa.Instruction) bool {
			if isReturn(in) && !(openErr != nil && knownNonNil(bf[in.Block()], openErr)) {
				missRet = in
				return true
			}
			return false
		}, func(in ssa.Instruction) bool { return in == ssa.Instruction(theWrite) })
		r.Check(missRet == nil, "C10.single-write", fnFileWrite+":every-path-writes", p.IPos(theWrite), "every successful-open path writes the record", "a path returns after a successful open without writing the record")
		again := pathAvoiding(W, theWrite, isW, nil)
		inLoop := false
		for _, l := range findLoops(W) {
			if l.Blocks[theWrite.Block()] {
				inLoop = true
			}
		}
		r.Check(again == nil && !inLoop, "C10.single-write", fnFileWrite+":once", p.IPos(theWrite), "written once", "the record write can execute more than once per call")
		// bytes = [sep?] + Marshal data + '\n'
		arg := theWrite.Call.Args[1]
		okShape, why := recordBytesShape(p, arg)
		r.Check(okShape, "C10.single-write", fnFileWrite+":bytes", p.IPos(theWrite), "bytes = json.Marshal(record) + '\\n'", "the written bytes are not the marshalled record followed by a newline terminator in the same write: "+why)
	}

	// ---- fresh line (K4)
	r.Rule("C10.fresh-line", "K4", "before the record write, the function inspects the file's tail (Stat/ReadAt/Seek/Read on the opened file) or starts the record with a '\\n' separator", 1)
	if theWrite != nil {
		inspects := false
		eachInstr(W, func(in ssa.Instruction) {
			if cl, ok := in.(*ssa.Call); ok {
				switch calleeName(cl) {
				case "(*os.File).ReadAt", "(*os.File).Read", "(*os.File).Seek":
					if len(cl.Call.Args) > 0 && cl.Call.Args[0] == fileV {
						if ok2, _ := mustPassBefore(W, nil, func(x ssa.Instruction) bool { return x == ssa.Instruction(theWrite) }, func(x ssa.Instruction) bool { return x == in }); ok2 || instrDominates(in, theWrite) || reachesBefore(W, in, theWrite) {
							inspects = true
						}
					}
				}
			}
		})
		// the inspection must be able to add a separator: the written bytes depend on it
		sepDep := false
		if inspects {
			sepDep = dependsOn(theWrite.Call.Args[1], func(v ssa.Value) bool {
				cl, ok := v.(*ssa.Call)
				return ok && (calleeName(cl) == "(*os.File).ReadAt" || calleeName(cl) == "(*os.File).Read")
			}) || valueDependsOnLocalFilledBy(theWrite.Call.Args[1], "(*os.File).ReadAt", "(*os.File).Read")
		}
		// the inspection covers every non-empty file: ReadAt(…, Size()-1) under Size() > 0 (not a larger bound)
		if inspects {
			bfW := blockFacts(W)
			eachInstr(W, func(in ssa.Instruction) {
				cl, ok := in.(*ssa.Call)
				if !ok || calleeName(cl) != "(*os.File).ReadAt" || cl.Call.Args[0] != fileV {
					return
				}
				isSize := func(v ssa.Value) bool {
					c2, ok := v.(*ssa.Call)
					return ok && c2.Call.IsInvoke() && c2.Call.Method.Name() == "Size"
				}
				okOff := false
				if bo, ok := cl.Call.Args[2].(*ssa.BinOp); ok && bo.Op == token.SUB && isSize(bo.X) {
					if k, ok := constInt(bo.Y); ok && k == 1 {
						okOff = true
					}
				}
				okGuard, anyGuard := false, false
				for fc := range factsAt(bfW, in) {
					rel, ok := relOf(fc.Cond, fc.Val)
					if !ok || !isSize(rel.X) {
						continue
					}
					if k, ok := constInt(rel.Y); ok {
						anyGuard = true
						if (rel.Op == token.GTR && k == 0) || (rel.Op == token.GEQ && k == 1) || (rel.Op == token.NEQ && k == 0) {
							okGuard = true
						}
					}
				}
				r.Check(okOff && (okGuard || !anyGuard), "C10.fresh-line", fnFileWrite+":tail-read-exact", p.IPos(in), "reads the last byte of every non-empty file",
					fmt.Sprintf("the tail inspection does not read byte Size()-1 of every non-empty file (offset Size()-1: %v, guard is Size() > 0: %v): a torn tail of some length is not detected", okOff, okGuard))
			})
		}
		startsSep := firstByteIsNewline(p, theWrite.Call.Args[1])
		r.Check((inspects && sepDep) || startsSep, "C10.fresh-line", fnFileWrite+":fresh-line", p.IPos(theWrite),
			fmt.Sprintf("tail inspected=%v (bytes depend on it=%v) / leading separator=%v", inspects, sepDep, startsSep),
			"the record is appended without knowing whether the file ends in a newline and without a leading separator: an entry written after a torn record (crash mid-append) is glued to it and lost on reopen")
	}

	// ---- truthful success (K3)
	r.Rule("C10.truthful-success", "K3", "the error returned after the write is the write's error; each earlier failure returns its own error", 2)
	if theWrite != nil {
		var werr ssa.Value
		for _, ref := range referrersOf(theWrite) {
			if ex, ok := ref.(*ssa.Extract); ok && ex.Index == 1 {
				werr = ex
			}
		}
		n := 0
		eachInstr(W, func(in ssa.Instruction) {
			ret, ok := in.(*ssa.Return)
			if !ok {
				return
			}
			// reachable after the write?
			if pathAvoiding(W, theWrite, func(x ssa.Instruction) bool { return x == in }, nil) == nil {
				return
			}
			key := fmt.Sprintf("%s:return-after-write#%d", fnFileWrite, n)
			n++
			leaves := backSlice(ret.Results[1], &SliceOpts{P: p, IsSource: func(v ssa.Value) bool { return v == werr }})
			ok2, why := leavesAll(p, leaves, false)
			r.Check(werr != nil && ok2, "C10.truthful-success", key, p.IPos(in), "returns the write's error", "Write reports success/failure independently of the file write: "+why)
		})
		if n == 0 {
			r.Bad("C10.truthful-success", fnFileWrite+":return-after-write", p.Pos(W.Pos()), "no return after the write")
		}
		// failure edges: a return under errX != nil returns a value depending on errX
		bf := blockFacts(W)
		m := 0
		eachInstr(W, func(in ssa.Instruction) {
			ret, ok := in.(*ssa.Return)
			if !ok {
				return
			}
			for f := range bf[in.Block()] {
				v, tn, ok := nilCmp(f.Cond)
				if !ok || f.Val == tn {
					continue
				}
				if _, isErr := v.Type().Underlying().(*types.Interface); !isErr {
					continue
				}
				key := fmt.Sprintf("%s:failure-return#%d", fnFileWrite, m)
				m++
				dep := dependsOn(ret.Results[1], func(x ssa.Value) bool { return x == v })
				r.Check(dep && !isNilConst(ret.Results[1]), "C10.truthful-success", key, p.IPos(in), "failure edge returns its error", "a failure edge returns an error that does not depend on the failure (or nil)")
			}
		})
	}

	// ---- reader: scanner limit (K4)
	r.Rule("C10.scanner-limit", "K4", "a bufio.Scanner reading the history file has Buffer(…, max ≥ 1<<30) called before the first Scan (the default 64 KiB token limit silently ends the scan at the first long record)", 1)
	{
		var scanners []*ssa.Call
		eachInstr(OH, func(in ssa.Instruction) {
			if cl, ok := in.(*ssa.Call); ok && calleeName(cl) == "bufio.NewScanner" {
				scanners = append(scanners, cl)
			}
		})
		if len(scanners) == 0 {
			// not a Scanner: a bufio.Reader / ReadAll based reader has no token limit
			usesReader := false
			eachInstr(OH, func(in ssa.Instruction) {
				if cl, ok := in.(*ssa.Call); ok {
					switch calleeName(cl) {
					case "bufio.NewReader", "io.ReadAll", "os.ReadFile", "(*bufio.Reader).ReadBytes", "(*bufio.Reader).ReadString", "(*encoding/json.Decoder).Decode":
						usesReader = true
					}
				}
			})
			if usesReader {
				r.OK("C10.scanner-limit", fnOpenHist+":reader", p.Pos(OH.Pos()), "reader is not a bufio.Scanner")
			} else {
				r.Unk("C10.scanner-limit", fnOpenHist+":reader", p.Pos(OH.Pos()), "how openHist reads the file was not recognised — rule table needs review")
			}
		}
		for i, sc := range scanners {
			key := siteKey(OH, "Scanner", i)
			var buf *ssa.Call
			eachInstr(OH, func(in ssa.Instruction) {
				if cl, ok := in.(*ssa.Call); ok && calleeName(cl) == "(*bufio.Scanner).Buffer" && cl.Call.Args[0] == ssa.Value(sc) {
					buf = cl
				}
			})
			if buf == nil {
				r.Bad("C10.scanner-limit", key, p.IPos(sc), "the scanner keeps its default 64 KiB token limit: one long record ends the scan silently and every later entry is lost on reopen")
				continue
			}
			mx, isC := constInt(buf.Call.Args[2])
			beforeScan, _ := mustPassBefore(OH, nil, func(in ssa.Instruction) bool {
				cl, ok := in.(*ssa.Call)
				return ok && calleeName(cl) == "(*bufio.Scanner).Scan" && cl.Call.Args[0] == ssa.Value(sc)
			}, func(in ssa.Instruction) bool { return in == ssa.Instruction(buf) })
			r.Check(isC && mx >= 1<<30 && beforeScan, "C10.scanner-limit", key, p.IPos(buf), fmt.Sprintf("Buffer max=%d before Scan", mx),
				fmt.Sprintf("scanner token limit is %d (constant: %v; set before every Scan: %v): records above it end the scan and later entries are lost", mx, isC, beforeScan))
		}
	}

	// ---- reader tolerant (K6)
	r.Rule("C10.tolerant", "K6", "the read loop skips undecodable / empty records without leaving the loop, and the end of the scan is not a failure of reopening", 2)
	{
		loops := findLoops(OH)
		var L *Loop
		for _, l := range loops {
			for b := range l.Blocks {
				for _, in := range b.Instrs {
					if isCallTo(in, "(*bufio.Scanner).Scan", "(*bufio.Reader).ReadBytes", "(*bufio.Reader).ReadString", "(*encoding/json.Decoder).Decode") {
						L = l
					}
				}
			}
		}
		if L == nil {
			r.Unk("C10.tolerant", fnOpenHist+":loop", p.Pos(OH.Pos()), "read loop not found")
		} else {
			var bad ssa.Instruction
			for _, b := range OH.Blocks {
				if !L.Blocks[b] || b == L.Head {
					continue
				}
				for _, s := range b.Succs {
					if !L.Blocks[s] {
						bad = b.Instrs[len(b.Instrs)-1]
					}
				}
			}
			// returns inside the loop body are blocks not in the natural loop but dominated by the head and not post-loop:
			eachInstr(OH, func(in ssa.Instruction) {
				if !isReturn(in) {
					return
				}
				b := in.Block()
				if L.Blocks[b] {
					bad = in
				}
			})
			// a return reachable from a loop-body block other than through the head's exit edge
			for b := range L.Blocks {
				if b == L.Head {
					continue
				}
				for _, s := range b.Succs {
					if !L.Blocks[s] {
						bad = b.Instrs[len(b.Instrs)-1]
					}
				}
			}
			r.Check(bad == nil, "C10.tolerant", fnOpenHist+":loop-exits", p.Pos(L.Head.Instrs[0].Pos()), "only exit is the end of the scan", "the read loop is left from inside its body (a bad record aborts reading): earlier-completed entries after it are lost")
			// decode failure leads back to the head
			var um *ssa.Call
			eachInstr(OH, func(in ssa.Instruction) {
				if cl, ok := in.(*ssa.Call); ok && calleeName(cl) == "encoding/json.Unmarshal" {
					um = cl
				}
			})
			if um == nil {
				r.Unk("C10.tolerant", fnOpenHist+":decode", p.Pos(OH.Pos()), "json.Unmarshal call not found")
			} else {
				// the append to list must be under err == nil
				bf := blockFacts(OH)
				okG := false
				eachInstr(OH, func(in ssa.Instruction) {
					cl, ok := in.(*ssa.Call)
					if !ok {
						return
					}
					if b, ok := cl.Call.Value.(*ssa.Builtin); ok && b.Name() == "append" && L.Blocks[in.Block()] {
						if knownNil(factsAt(bf, in), ssa.Value(um)) {
							okG = true
						}
					}
				})
				r.Check(okG, "C10.tolerant", fnOpenHist+":append-under-decode-ok", p.IPos(um), "entries are kept only when decoding succeeded", "an entry is appended without a dominating decode-success test")
			}
			// post-loop return: error result nil
			okRet := true
			eachInstr(OH, func(in ssa.Instruction) {
				ret, ok := in.(*ssa.Return)
				if !ok || L.Blocks[in.Block()] {
					return
				}
				// returns reachable from the loop head exit
				if !blockReaches(L.Head, func(x ssa.Instruction) bool { return x == in }, nil) {
					return
				}
				if !isNilConst(ret.Results[1]) {
					// named result spill: resolve
					vs := resolveLoad(ret.Results[1])
					for v := range vs {
						if !isNilConst(v) {
							okRet = false
						}
					}
				}
			})
			r.Check(okRet, "C10.tolerant", fnOpenHist+":end-of-scan-ok", p.Pos(OH.Pos()), "returns nil error after the loop", "reaching the end of the scan can make reopening fail")
		}
	}

	// ---- schema (K5)
	r.Rule("C10.schema", "K5", "every JSON key the writer emits is accepted (case-insensitively) by the reader's struct; the reader's emptiness test and GetLine use the field the writer fills with the trimmed text", 3)
	{
		var wt, rt types.Type
		var marshal *ssa.Call
		eachInstr(W, func(in ssa.Instruction) {
			if cl, ok := in.(*ssa.Call); ok && calleeName(cl) == "encoding/json.Marshal" {
				marshal = cl
				if mi, ok := cl.Call.Args[0].(*ssa.MakeInterface); ok {
					wt = mi.X.Type()
				}
			}
		})
		eachInstr(OH, func(in ssa.Instruction) {
			if cl, ok := in.(*ssa.Call); ok && calleeName(cl) == "encoding/json.Unmarshal" {
				if mi, ok := cl.Call.Args[1].(*ssa.MakeInterface); ok {
					if pt, ok := mi.X.Type().Underlying().(*types.Pointer); ok {
						rt = pt.Elem()
					}
				}
			}
		})
		if wt == nil || rt == nil {
			r.Unk("C10.schema", "json-types", "-", "could not determine the marshalled / unmarshalled types")
		} else {
			wk, rk := jsonKeys(wt), jsonKeys(rt)
			textKey := ""
			for k, fld := range wk {
				match := ""
				for k2, f2 := range rk {
					if strings.EqualFold(k, k2) {
						match = f2
					}
				}
				r.Check(match != "", "C10.schema", "key:"+k, p.IPos(marshal), "reader field "+match, "JSON key \""+k+"\" written by Write has no matching field in the reader's struct: the value is dropped on reopen")
				// which written field carries the text: the one stored from TrimSpace(s)
				_ = fld
			}
			// the writer's text field
			if mi, ok := marshal.Call.Args[0].(*ssa.MakeInterface); ok {
				if u, ok := mi.X.(*ssa.UnOp); ok {
					if a, ok := u.X.(*ssa.Alloc); ok {
						for _, ref := range referrersOf(a) {
							fa, ok := ref.(*ssa.FieldAddr)
							if !ok {
								continue
							}
							for _, r2 := range referrersOf(fa) {
								if st, ok := r2.(*ssa.Store); ok {
									if cl, ok := st.Val.(*ssa.Call); ok && calleeName(cl) == "strings.TrimSpace" && cl.Call.Args[0] == ssa.Value(W.Params[1]) {
										fname := fieldName(fa.X.Type(), fa.Field)
										for k, f := range wk {
											if f == fname {
												textKey = k
											}
										}
									}
								}
							}
						}
					}
				}
			}
			if textKey == "" {
				r.Bad("C10.schema", "writer-text-field", p.IPos(marshal), "no marshalled field is filled with TrimSpace(s): the written text is not the entry (up to surrounding whitespace)")
			} else {
				readerField := ""
				for k2, f2 := range rk {
					if strings.EqualFold(textKey, k2) {
						readerField = f2
					}
				}
				// GetLine returns that field; emptiness test on that field
				okGet, okEmpty := false, false
				if GL := p.Func("(*history.fileHistory).GetLine"); GL != nil {
					r.Fn(fnName(GL))
					eachInstr(GL, func(in ssa.Instruction) {
						if ret, ok := in.(*ssa.Return); ok && isNilConst(ret.Results[1]) {
							if _, fld, ok := fieldRead(ret.Results[0]); ok && fld == readerField {
								okGet = true
							}
						}
					})
				}
				eachInstr(OH, func(in ssa.Instruction) {
					if cl, ok := in.(*ssa.Call); ok {
						if b, ok := cl.Call.Value.(*ssa.Builtin); ok && b.Name() == "len" {
							if _, fld, ok := fieldRead(cl.Call.Args[0]); ok && fld == readerField {
								okEmpty = true
							}
						}
					}
					if b, ok := in.(*ssa.BinOp); ok && (b.Op == token.EQL || b.Op == token.NEQ) {
						if s, ok := constString(b.Y); ok && s == "" {
							if _, fld, ok := fieldRead(b.X); ok && fld == readerField {
								okEmpty = true
							}
						}
					}
				})
				r.Check(okGet, "C10.schema", "reader:GetLine."+readerField, p.Pos(OH.Pos()), "GetLine returns the text field", "GetLine does not return the field ("+readerField+") that receives the written text")
				r.Check(okEmpty, "C10.schema", "reader:empty-test."+readerField, p.Pos(OH.Pos()), "emptiness test on the text field", "the reader's empty-record test is not on the field ("+readerField+") that receives the written text")
			}
		}
	}
	checkC10TailReadable(c)
	checkC10Round4(c)
}

// reachesBefore: a is executed on some path before b (weaker than dominance; used with dependence checks).
func reachesBefore(fn *ssa.Function, a, b ssa.Instruction) bool {
	return pathAvoiding(fn, a, func(x ssa.Instruction) bool { return x == b }, nil) != nil
}

// recordBytesShape: arg is append(D, '\n') where D derives from json.Marshal's
// output, optionally through a separator-prepending append.
func recordBytesShape(p *Prog, arg ssa.Value) (bool, string) {
	cl, ok := arg.(*ssa.Call)
	if !ok {
		return false, "not an append"
	}
	if b, ok := cl.Call.Value.(*ssa.Builtin); !ok || b.Name() != "append" {
		return false, "not an append"
	}
	// terminator: slice of [1]byte{10}
	term := false
	for _, l := range backSlice(cl.Call.Args[1], &SliceOpts{P: p, ElemOf: true}) {
		if k, ok := constInt(l.V); ok && k == 10 {
			term = true
		} else {
			return false, "terminator is not the single constant '\\n'"
		}
	}
	if !term {
		return false, "no '\\n' terminator"
	}
	// data: from Marshal (and possibly a constant '\n' separator)
	hasMarshal := false
	for _, l := range backSlice(cl.Call.Args[0], &SliceOpts{P: p, ElemOf: true, IsSource: func(v ssa.Value) bool {
		ex, ok := v.(*ssa.Extract)
		if !ok || ex.Index != 0 {
			return false
		}
		c2, ok := ex.Tuple.(*ssa.Call)
		return ok && calleeName(c2) == "encoding/json.Marshal"
	}}) {
		switch l.Kind {
		case LeafSource:
			hasMarshal = true
		case LeafConst:
			if k, ok := constInt(l.V); ok && k != 10 {
				return false, fmt.Sprintf("constant byte %d mixed into the record", k)
			}
		default:
			return false, fmt.Sprintf("%s [%s]", p.descValue(l.V), l.Why)
		}
	}
	if !hasMarshal {
		return false, "the record bytes do not come from json.Marshal"
	}
	return true, ""
}

// firstByteIsNewline: the written slice is append([]byte{'\n'}, …) unconditionally.
func firstByteIsNewline(p *Prog, arg ssa.Value) bool {
	for i := 0; i < 6; i++ {
		cl, ok := arg.(*ssa.Call)
		if !ok {
			return false
		}
		if b, ok := cl.Call.Value.(*ssa.Builtin); !ok || b.Name() != "append" {
			return false
		}
		first := cl.Call.Args[0]
		// is `first` a constant one-byte slice {10}?
		if sl, ok := first.(*ssa.Slice); ok {
			if a, ok := sl.X.(*ssa.Alloc); ok {
				allNL, n := true, 0
				for _, ref := range referrersOf(a) {
					if ia, ok := ref.(*ssa.IndexAddr); ok {
						for _, r2 := range referrersOf(ia) {
							if st, ok := r2.(*ssa.Store); ok {
								n++
								if k, ok := constInt(st.Val); !ok || k != 10 {
									allNL = false
								}
							}
						}
					}
				}
				return allNL && n >= 1
			}
		}
		arg = first
	}
	return false
}

// valueDependsOnLocalFilledBy: v depends (data/control) on a load from a local
// buffer whose slice was passed to one of the named calls (e.g. ReadAt(buf, …)).
func valueDependsOnLocalFilledBy(v ssa.Value, callees ...string) bool {
	return dependsOn(v, func(x ssa.Value) bool {
		u, ok := x.(*ssa.UnOp)
		if !ok || u.Op != token.MUL {
			return false
		}
		ia, ok := u.X.(*ssa.IndexAddr)
		if !ok {
			return false
		}
		// ia.X is a slice value; was it (or its backing alloc) passed to a callee?
		for _, ref := range referrersOf(ia.X) {
			if cl, ok := ref.(*ssa.Call); ok {
				for _, n := range callees {
					if calleeName(cl) == n {
						return true
					}
				}
			}
		}
		return false
	})
}
