package main

import (
	"fmt"
	"sort"

	"golang.org/x/tools/go/ssa"
)

// Registry is the command table extracted statically from the four
// map-literal constructors registered in NewShell.
type Registry struct {
	Cmds   map[string]*ssa.Function // command name -> implementing method
	Origin map[string]string        // command name -> constructor
	Errs   []string
}

var registryCtors = []string{
	"(*readline.Shell).standardCommands",
	"(*readline.Shell).viCommands",
	"(*readline.Shell).historyCommands",
	"(*readline.Shell).completionCommands",
}

func (p *Prog) Registry() *Registry {
	r := &Registry{Cmds: map[string]*ssa.Function{}, Origin: map[string]string{}}
	// the constructors must be exactly those passed to Register in NewShell
	ns := p.Func("readline.NewShell")
	if ns == nil {
		r.Errs = append(r.Errs, "anchor readline.NewShell not found")
		return r
	}
	registered := map[string]bool{}
	for _, c := range callsTo(ns, false, "(*keymap.Engine).Register") {
		arg := c.Common().Args[1]
		for {
			if ct, ok := arg.(*ssa.ChangeType); ok {
				arg = ct.X
				continue
			}
			break
		}
		if call, ok := arg.(*ssa.Call); ok {
			if f := staticCallee(call); f != nil {
				registered[fnName(f)] = true
			}
		} else {
			r.Errs = append(r.Errs, fmt.Sprintf("Register argument at %s is not a direct constructor call", p.IPos(c)))
		}
	}
	for _, n := range registryCtors {
		if !registered[n] {
			r.Errs = append(r.Errs, "constructor "+n+" is not registered in NewShell")
		}
	}
	for n := range registered {
		found := false
		for _, m := range registryCtors {
			if m == n {
				found = true
			}
		}
		if !found {
			r.Errs = append(r.Errs, "NewShell registers an unknown command table "+n+" (rule table needs review)")
		}
	}
	for _, n := range registryCtors {
		f := p.Func(n)
		if f == nil {
			r.Errs = append(r.Errs, "anchor "+n+" not found")
			continue
		}
		eachInstrRaw(f, func(in ssa.Instruction) {
			mu, ok := in.(*ssa.MapUpdate)
			if !ok {
				return
			}
			key, ok := constString(mu.Key)
			if !ok {
				r.Errs = append(r.Errs, fmt.Sprintf("%s: non-constant command name at %s", n, p.IPos(in)))
				return
			}
			var target *ssa.Function
			switch v := mu.Value.(type) {
			case *ssa.MakeClosure:
				target = unbound(v.Fn.(*ssa.Function))
			case *ssa.Function:
				target = v
			}
			if target == nil {
				r.Errs = append(r.Errs, fmt.Sprintf("%s: command %q has an unresolved implementation at %s", n, key, p.IPos(in)))
				return
			}
			if _, dup := r.Cmds[key]; dup {
				// later registration overrides (Register copies maps in order) — keep last, note it
			}
			r.Cmds[key] = target
			r.Origin[key] = n
		})
	}
	return r
}

func (r *Registry) Names() []string {
	var out []string
	for n := range r.Cmds {
		out = append(out, n)
	}
	sort.Strings(out)
	return out
}
