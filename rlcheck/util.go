package main

import "runtime/debug"

func stack() string { return string(debug.Stack()) }
