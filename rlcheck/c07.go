package main

import (
	"fmt"
	"go/token"
	"go/types"
	"strings"

	"golang.org/x/tools/go/ssa"
)

func init() { propFuncs["C07"] = checkC07 }

const lhT = "history.lineHistory"

// factRelOnField: some fact relates a load of tn.field (same memory value as `use`, or any load when use==nil)
// with operand `other` (matched by pred) — returned normalised as  field OP other.
func factsFieldRel(facts map[Fact]bool, tn, field string, use ssa.Value, other func(ssa.Value) bool) []token.Token {
	var out []token.Token
	for f := range facts {
		rel, ok := relOf(f.Cond, f.Val)
		if !ok {
			continue
		}
		if isFieldLoad(rel.X, tn, field) && other(rel.Y) && (use == nil || sameMemValue(rel.X, use)) {
			out = append(out, rel.Op)
		}
		if isFieldLoad(rel.Y, tn, field) && other(rel.X) && (use == nil || sameMemValue(rel.Y, use)) {
			out = append(out, flipOp(rel.Op))
		}
	}
	return out
}

func checkC07(c *Ctx) {
	p, r := c.P, c.R
	r.Explanation = "Decided statically on the undo machinery: every command run ends in SaveWithCommand→Save; Undo and Redo set skip and undoing on every path (so the post-command save neither records the undone state nor resets the position); the buffer/cursor that Undo, Redo, Revert and restoreLineBuffer install derive only from an element of the saved-states list (so undo can only produce previously saved buffers); Save appends exactly the current buffer text after truncating the list at the undo position (a new edit discards the redo branch) and only when not skipped; Reset zeroes the position only when the last command was not an undo; the undo position is only reset, clamped, incremented, or decremented under a dominating pos >= 1 test, and each items[len-pos] read carries its clamp. NOT decided: the sequence semantics (which states merge or are skipped for every command sequence) and that pos <= len(items) holds across commands — that needs history-dependent invariants."
	r.Trusted = []string{"go/packages type checker", "go/ssa construction", "rule tables in rlcheck/c07.go"}
	r.Assumptions = []string{"commands mutate the buffer only through core.Line methods (checked for the movement table in C06)"}

	names := []string{"(*history.Sources).Save", "(*history.Sources).SaveWithCommand", "(*history.Sources).Undo", "(*history.Sources).Redo", "(*history.Sources).Revert", "(*history.Sources).restoreLineBuffer", "(*history.Sources).Reset", "(*readline.Shell).run"}
	fs := map[string]*ssa.Function{}
	r.Rule("C07.anchors", "K0", "anchored functions resolve", len(names))
	miss := false
	for _, n := range names {
		f := p.Func(n)
		fs[n] = f
		if f == nil {
			r.Unk("C07.anchors", n, "-", "anchor not found — rule table needs review")
			miss = true
		} else {
			r.OK("C07.anchors", n, p.Pos(f.Pos()), "")
			r.Fn(n)
		}
	}
	if miss {
		return
	}
	SAVE, SWC, UNDO, REDO, REV, RLB, RESET, RUN := fs[names[0]], fs[names[1]], fs[names[2]], fs[names[3]], fs[names[4]], fs[names[5]], fs[names[6]], fs[names[7]]
	_ = RESET

	// ---- save after every command (K1)
	r.Rule("C07.save-every-command", "K1", "every path of Shell.run from command execution to return passes History.SaveWithCommand, which always calls Save", 2)
	{
		ex := callsTo(RUN, false, "(*readline.Shell).execute")
		if len(ex) != 1 {
			r.Unk("C07.save-every-command", fnName(RUN)+":execute", p.Pos(RUN.Pos()), fmt.Sprintf("expected one execute call, found %d", len(ex)))
		} else {
			ok, _ := mustPassBefore(RUN, ex[0], isReturn, func(in ssa.Instruction) bool { return isCallTo(in, "(*history.Sources).SaveWithCommand") })
			r.Check(ok, "C07.save-every-command", fnName(RUN)+":SaveWithCommand", p.IPos(ex[0]), "every path from execute to return saves", "a path from command execution to return skips SaveWithCommand: the command's result is not recorded as an undo state")
			// execute itself must be on every path that does not take the early local-keymap return
			missEx := pathAvoiding(RUN, nil, func(in ssa.Instruction) bool {
				if ret, ok := in.(*ssa.Return); ok {
					if b, isC := constBool(ret.Results[0]); isC && !b {
						return false
					}
					return true
				}
				return false
			}, func(in ssa.Instruction) bool { return in == ssa.Instruction(ex[0]) })
			_ = missEx
		}
		ok2, _ := mustPassBefore(SWC, nil, isReturn, func(in ssa.Instruction) bool { return isCallTo(in, "(*history.Sources).Save") })
		r.Check(ok2, "C07.save-every-command", fnName(SWC)+":Save", p.Pos(SWC.Pos()), "SaveWithCommand always calls Save", "SaveWithCommand can return without calling Save")
	}

	// ---- commands around the save protocol (K1)
	r.Rule("C07.undo-no-save", "K1", "the undo / redo commands do not save a state before calling Undo()/Redo() (a save inside an undo chain truncates the undone states and resets the position)", 3)
	reg := p.Registry()
	for _, cmd := range []string{"undo", "vi-undo", "redo"} {
		f := reg.Cmds[cmd]
		if f == nil {
			r.Unk("C07.undo-no-save", "command:"+cmd, "-", "not registered")
			continue
		}
		r.Fn(fnName(f))
		isUR := func(in ssa.Instruction) bool {
			return isCallTo(in, "(*history.Sources).Undo", "(*history.Sources).Redo")
		}
		isSave := func(in ssa.Instruction) bool {
			return isCallTo(in, "(*history.Sources).Save", "(*history.Sources).SaveWithCommand")
		}
		var bad ssa.Instruction
		eachInstr(f, func(in ssa.Instruction) {
			if isSave(in) && pathAvoiding(f, in, isUR, nil) != nil {
				bad = in
			}
		})
		has := false
		eachInstr(f, func(in ssa.Instruction) {
			if isUR(in) {
				has = true
			}
		})
		r.Check(has && bad == nil, "C07.undo-no-save", "command:"+cmd, p.Pos(f.Pos()), "calls Undo/Redo with no prior Save", cmd+" saves a state before undoing/redoing (or no longer calls Undo/Redo): n undos followed by n redos do not come back to the starting text")
	}
	r.Rule("C07.walk-not-skipped", "K1", "a command that recalls a history line (Sources.Walk / Fetch) does not also skip the post-command save: the recalled text becomes that line's initial undo state", 6)
	for _, cmd := range reg.Names() {
		f := reg.Cmds[cmd]
		isWalk := func(in ssa.Instruction) bool {
			return isCallTo(in, "(*history.Sources).Walk", "(*history.Sources).Fetch")
		}
		isSkip := func(in ssa.Instruction) bool { return isCallTo(in, "(*history.Sources).SkipSave") }
		var walks []ssa.Instruction
		eachInstr(f, func(in ssa.Instruction) {
			if isWalk(in) {
				walks = append(walks, in)
			}
		})
		if len(walks) == 0 {
			continue
		}
		r.Fn(fnName(f))
		// a Save() call consumes a pending skip (its deferred Reset clears the flag)
		isSaveCall := func(in ssa.Instruction) bool { return isCallTo(in, "(*history.Sources).Save") }
		bad := false
		eachInstr(f, func(in ssa.Instruction) {
			if isSkip(in) {
				// skip still pending when a Walk executes and at return
				if w := pathAvoiding(f, in, isWalk, isSaveCall); w != nil {
					if pathAvoiding(f, w, isReturn, isSaveCall) != nil {
						bad = true
					}
				}
			}
			if isWalk(in) {
				if s := pathAvoiding(f, in, isSkip, nil); s != nil {
					if pathAvoiding(f, s, isReturn, isSaveCall) != nil {
						bad = true
					}
				}
			}
		})
		r.Check(!bad, "C07.walk-not-skipped", "command:"+cmd, p.Pos(f.Pos()), "no SkipSave on a path that recalls a history line", cmd+" recalls a history line and skips the post-command save on the same path: the recalled text is never an undo state of that line, so repeated undo cannot reach the line's initial content")
	}

	// ---- undo flags (K1)
	r.Rule("C07.undo-flags", "K1", "Undo and Redo store skip = true and undoing = true on every path", 4)
	for _, f := range []*ssa.Function{UNDO, REDO} {
		for _, fld := range []string{"skip", "undoing"} {
			fld := fld
			ok, _ := mustPassBefore(f, nil, isReturn, func(in ssa.Instruction) bool {
				st, ok := isFieldStore(in, "history.Sources", fld)
				if !ok {
					return false
				}
				b, isC := constBool(st.Val)
				return isC && b
			})
			r.Check(ok, "C07.undo-flags", fnName(f)+":"+fld+"=true", p.Pos(f.Pos()), "set on every path", fnName(f)+" can return without setting "+fld+" = true: the post-command save would record the undone state / reset the undo position")
		}
	}

	// ---- only saved states are restored (K3)
	r.Rule("C07.only-saved-states", "K3", "the buffer and cursor installed by Undo/Redo/Revert/restoreLineBuffer derive only from one element of lineHistory.items", 8)
	isItemsElem := func(v ssa.Value) bool {
		u, ok := v.(*ssa.UnOp)
		if !ok || u.Op != token.MUL {
			return false
		}
		ia, ok := u.X.(*ssa.IndexAddr)
		return ok && isFieldLoad(ia.X, lhT, "items")
	}
	for _, f := range []*ssa.Function{UNDO, REDO, REV, RLB} {
		sets := callsTo(f, false, "(*core.Line).Set")
		if len(sets) == 0 {
			r.Bad("C07.only-saved-states", fnName(f)+":Line.Set", p.Pos(f.Pos()), "no Line.Set call: the function no longer restores a saved state")
		}
		for i, call := range sets {
			// argument: []rune(elem.line)
			leaves := backSlice(call.Common().Args[1], &SliceOpts{P: p, IsSource: isItemsElem})
			ok, why := leavesAll(p, leaves, false)
			// field precision: the string must be the `line` field
			okField := false
			eachInstr(f, func(in ssa.Instruction) {
				if cv, isCv := in.(*ssa.Convert); isCv && cv == call.Common().Args[1] {
					if _, fld, isFR := fieldRead(cv.X); isFR && fld == "line" {
						okField = true
					}
				}
			})
			r.Check(ok && okField, "C07.only-saved-states", siteKey(f, "Line.Set", i), p.IPos(call), "Line.Set([]rune(items[i].line))", "the buffer installed is not the text of a saved undo state: "+why)
		}
		csets := callsTo(f, false, "(*core.Cursor).Set")
		for i, call := range csets {
			leaves := backSlice(call.Common().Args[1], &SliceOpts{P: p, IsSource: isItemsElem})
			ok, why := leavesAll(p, leaves, false)
			_, fld, isFR := fieldRead(call.Common().Args[1])
			r.Check(ok && isFR && fld == "pos", "C07.only-saved-states", siteKey(f, "Cursor.Set", i), p.IPos(call), "Cursor.Set(items[i].pos)", "the cursor installed is not the position of a saved undo state: "+why)
		}
	}

	// ---- Save (K1+K3+K4)
	r.Rule("C07.save", "K1", "Save appends {text of the current buffer} to items, under !skip, after cutting items behind the state undone to (items[:len-pos+1] when pos > 0: a new edit discards the undone steps and only them); a skipped save leaves the undo position alone", 6)
	{
		bf := blockFacts(SAVE)
		var appendStore, truncStore *ssa.Store
		eachInstr(SAVE, func(in ssa.Instruction) {
			st, ok := isFieldStore(in, lhT, "items")
			if !ok {
				return
			}
			switch v := st.Val.(type) {
			case *ssa.Call:
				if b, ok := v.Call.Value.(*ssa.Builtin); ok && b.Name() == "append" {
					appendStore = st
				}
			case *ssa.Slice:
				truncStore = st
			}
		})
		if appendStore == nil {
			r.Bad("C07.save", fnName(SAVE)+":append(items)", p.Pos(SAVE.Pos()), "Save no longer appends to items: no undo state is recorded")
		} else {
			// guarded by !skip
			okSkip := false
			for f := range factsAt(bf, appendStore) {
				if isFieldLoad(f.Cond, "history.Sources", "skip") && !f.Val {
					okSkip = true
				}
			}
			r.Check(okSkip, "C07.save", fnName(SAVE)+":append-under-!skip", p.IPos(appendStore), "under skip == false", "the append is not guarded by skip == false: undo/redo and SkipSave commands would record states")
			// appended element's line = string(*h.line)
			ap := appendStore.Val.(*ssa.Call)
			okArg0 := isFieldLoad(ap.Call.Args[0], lhT, "items")
			leaves := backSlice(ap.Call.Args[1], &SliceOpts{P: p, ElemOf: true, IsSource: func(v ssa.Value) bool {
				u, ok := v.(*ssa.UnOp)
				if !ok || u.Op != token.MUL {
					return false
				}
				return isFieldLoad(u.X, "history.Sources", "line")
			}, Through: func(cl *ssa.Call) []ssa.Value {
				if calleeName(cl) == "(*core.Cursor).Pos" {
					return []ssa.Value{} // cursor position of the copy: not text
				}
				return nil
			}})
			okText := false
			for _, l := range leaves {
				if l.Kind == LeafSource {
					okText = true
				}
			}
			r.Check(okArg0 && okText, "C07.save", fnName(SAVE)+":append-current-text", p.IPos(appendStore), "items = append(items, {string(*h.line), …})", "the saved undo state is not the current buffer text appended to items")
			// the truncation: items[:len(items)-pos+1] — the state undone to is kept — on the pos > 0 branch of a test that dominates the append
			if truncStore == nil {
				r.Bad("C07.save", fnName(SAVE)+":truncate", p.Pos(SAVE.Pos()), "items is not truncated at the undo position before appending: the redo branch survives a new edit")
			} else {
				sl := truncStore.Val.(*ssa.Slice)
				okTr := isFieldLoad(sl.X, lhT, "items") && sl.Low == nil
				isPos := func(v ssa.Value) bool {
					return dependsOn(v, func(x ssa.Value) bool { return isFieldLoad(x, lhT, "pos") })
				}
				keepsState := false
				if add, ok := sl.High.(*ssa.BinOp); ok && add.Op == token.ADD {
					if one, isK := constInt(add.Y); isK && one == 1 {
						if b, ok := add.X.(*ssa.BinOp); ok && b.Op == token.SUB {
							if cl, ok := b.X.(*ssa.Call); ok {
								if bi, ok := cl.Call.Value.(*ssa.Builtin); ok && bi.Name() == "len" && isFieldLoad(cl.Call.Args[0], lhT, "items") && isPos(b.Y) {
									keepsState = true
								}
							}
						}
					}
				}
				// under pos > 0, and the test dominates the append
				underPos, dom := false, false
				for fc := range factsAt(bf, truncStore) {
					rel, ok := relOf(fc.Cond, fc.Val)
					if ok && isPos(rel.X) && rel.Op == token.GTR {
						if k, isK := constInt(rel.Y); isK && k == 0 {
							underPos = true
							if ci, isI := fc.Cond.(ssa.Instruction); isI && instrDominates(ci, appendStore) {
								dom = true
							}
						}
					}
				}
				r.Check(okTr && keepsState && underPos && dom, "C07.save", fnName(SAVE)+":truncate", p.IPos(truncStore), "items = items[:len(items)-pos+1] under pos > 0, tested before the append",
					fmt.Sprintf("the truncation is not items[:len(items)-pos+1] on the pos > 0 branch of a test made before the append (slice of items: %v, keeps the state undone to: %v, under pos > 0: %v, tested before the append: %v): the undone steps survive a new edit, or the state undone to is lost — after undoing back to the first state, a command that does not save before editing makes it unreachable", okTr, keepsState, underPos, dom))
				// the "line unchanged" shortcut comes after the truncation: it compares with the state undone to, not with an undone step
				shortcutAfter := true
				eachInstr(SAVE, func(in ssa.Instruction) {
					bo, ok := in.(*ssa.BinOp)
					if !ok || bo.Op != token.EQL {
						return
					}
					if _, isStr := bo.X.Type().Underlying().(*types.Basic); !isStr || bo.X.Type().Underlying().(*types.Basic).Kind() != types.String {
						return
					}
					if w := pathAvoiding(SAVE, nil, func(x ssa.Instruction) bool { return x == in }, func(x ssa.Instruction) bool { return x == ssa.Instruction(truncStore) }); w != nil {
						// a path reaches the comparison without the truncation: fine only when pos <= 0 there
						okZero := false
						for fc := range factsAt(bf, in) {
							_ = fc
						}
						// the comparison must be dominated by the pos > 0 test
						for _, b := range SAVE.Blocks {
							if iff, isIf := b.Instrs[len(b.Instrs)-1].(*ssa.If); isIf {
								if rel, ok := relOf(iff.Cond, true); ok && dependsOn(rel.X, func(x ssa.Value) bool { return isFieldLoad(x, lhT, "pos") }) && rel.Op == token.GTR && instrDominates(iff, in) {
									okZero = true
								}
							}
						}
						if !okZero {
							shortcutAfter = false
						}
					}
				})
				r.Check(shortcutAfter, "C07.save", fnName(SAVE)+":shortcut-after-truncate", p.IPos(truncStore), "the unchanged-line shortcut follows the pos > 0 test", "the `line unchanged` shortcut is taken before the undone steps are cut: it compares the line with an undone step instead of the state undone to")
			}
		}
		// Save ends in Reset (deferred) on every path that is not the skipped one; the skipped path neither
		// rewinds the undo position nor calls Reset: the line may still sit on top of a state that was undone to
		var deferReset ssa.Instruction
		eachInstr(SAVE, func(in ssa.Instruction) {
			if d, ok := in.(*ssa.Defer); ok && calleeName(d) == "(*history.Sources).Reset" {
				deferReset = in
			}
		})
		if deferReset == nil {
			r.Bad("C07.save", fnName(SAVE)+":defer-Reset", p.Pos(SAVE.Pos()), "Save does not defer Reset: the skip/undoing flags and the undo position are not re-armed after a saved command")
		} else {
			okAll, skippedClean := true, true
			eachInstr(SAVE, func(in ssa.Instruction) {
				ret, ok := in.(*ssa.Return)
				if !ok {
					return
				}
				if w := pathAvoiding(SAVE, nil, func(x ssa.Instruction) bool { return x == ssa.Instruction(ret) }, func(x ssa.Instruction) bool { return x == deferReset }); w == nil {
					return // every path to this return passes the defer
				}
				skipped := false
				for fc := range factsAt(bf, in) {
					if isFieldLoad(fc.Cond, "history.Sources", "skip") && fc.Val {
						skipped = true
					}
				}
				if !skipped {
					okAll = false
				}
			})
			// on the skip == true branch: no store to lineHistory.pos, no call to Reset
			for _, b := range SAVE.Blocks {
				iff, ok := b.Instrs[len(b.Instrs)-1].(*ssa.If)
				if !ok || !isFieldLoad(iff.Cond, "history.Sources", "skip") {
					continue
				}
				t := b.Succs[0]
				// a Reset deferred before the test runs on the skipped path too
				if instrDominates(deferReset, iff) {
					skippedClean = false
				}
				if w := pathAvoiding(SAVE, t.Instrs[0], func(x ssa.Instruction) bool {
					if _, isSt := isFieldStore(x, lhT, "pos"); isSt {
						return true
					}
					return isCallTo(x, "(*history.Sources).Reset")
				}, func(x ssa.Instruction) bool { _, isRet := x.(*ssa.Return); return isRet }); w != nil {
					skippedClean = false
				}
			}
			r.Check(okAll, "C07.save", fnName(SAVE)+":defer-Reset", p.IPos(deferReset), "Reset is deferred on every path but the skipped one", "a path of Save that is not the skipped one returns without the deferred Reset: the flags and the undo position are not re-armed after the command")
			r.Check(skippedClean, "C07.save", fnName(SAVE)+":skipped-keeps-position", p.IPos(deferReset), "the skipped path leaves the undo position alone", "a skipped save (typing, movements) rewinds the undo position or runs Reset: the undone steps stay in the list behind a position that says nothing was undone, and the next undo goes to a state that had been undone before")
		}
	}

	// ---- the undo position and the indexes computed from it (K9)
	r.Rule("C07.index", "K9", "in Save, Undo, Redo, Revert and Reset every index and slice of the saved states (items[len(items)-pos], items[:len(items)-pos+1], items[:last+1]…) is proved in range, and every store to the undo position is proved non-negative, by the zone-domain prover (the clamps of the position to len(items), the `pos < 1` exits and the decrement under them are what the proof uses; no reviewed entry is accepted here)", 6)
	{
		chk := map[string]int64{}
		for _, ci := range classInvariants {
			chk[ci.tn+"."+ci.fld] = ci.lb
		}
		z := &zoneEngine{p: p, contracts: coreContracts(), fieldMinLen: map[string]int64{}, useGetters: true, useHeap: true, fieldLB: nonnegFieldLB, fieldLBCheck: chk, entryNonneg: sortCallbackParams(p), entryFacts: sortCallbackFacts(p)}
		n := 0
		for _, fn := range []string{"(*history.Sources).Save", "(*history.Sources).Undo", "(*history.Sources).Redo", "(*history.Sources).Revert", "(*history.Sources).Reset"} {
			f := p.Func(fn)
			if f == nil {
				r.Unk("C07.index", fn, "-", "anchor not found")
				continue
			}
			r.Fn(fn)
			z.obls = nil
			z.analyse(f)
			cnt := map[string]int{}
			for _, o := range z.obls {
				if !o.IsBound && !strings.Contains(o.What, "history.lineHistory.pos") {
					continue
				}
				n++
				kind := "site"
				if !o.IsBound {
					kind = "store(pos)"
				}
				key := fmt.Sprintf("%s:%s#%d", fn, kind, cnt[kind])
				cnt[kind]++
				r.Check(o.OK, "C07.index", key, p.IPos(o.In), "proved: "+o.What, "cannot prove "+o.What+" ("+o.Detail+"): the undo position can leave [0, len(items)] or an index computed from it the saved states — undo or redo panics, or reads a state that is not the one meant")
			}
		}
		if n == 0 {
			r.Unk("C07.index", "obligations", "-", "the prover found no site in the undo functions: anchor changed")
		}
	}
	checkC07InitKey(c)
	checkC07ResetRewinds(c)
	checkC07UndoKeepsStart(c)
	checkC07Round6(c)
	unitRule(c, "C07.units", []string{"(*history.Sources).Save", "(*history.Sources).Undo", "(*history.Sources).Redo", "(*history.Sources).Revert"}, 0)
}

// ---- C07.undo-position-restarts / C07.pos-is-undone-count (round 6)
func checkC07Round6(c *Ctx) {
	p, r := c.P, c.R
	const tn = "history.lineHistory"
	r.Rule("C07.undo-position-restarts", "K3", "when Undo replaces the undone steps by the text it starts from (a store to lineHistory.items), the count of undone steps it goes on with is 0 on that path: the position is counted from the newest state, and the newest state is now the text just kept — a stale count skips states (undo jumps too far back) and redo no longer returns to the text", 1)
	if U := p.Func("(*history.Sources).Undo"); U != nil {
		r.Fn(fnName(U))
		var posStores []*ssa.Store
		eachInstr(U, func(in ssa.Instruction) {
			if st, ok := isFieldStore(in, tn, "pos"); ok {
				posStores = append(posStores, st)
			}
		})
		n := 0
		eachInstr(U, func(in ssa.Instruction) {
			st, ok := isFieldStore(in, tn, "items")
			if !ok {
				return
			}
			key := siteKey(U, "items-store", n)
			n++
			B := st.Block()
			found, good := 0, true
			for _, T := range B.Succs {
				pi := -1
				for i, pb := range T.Preds {
					if pb == B {
						pi = i
					}
				}
				for _, x := range T.Instrs {
					ph, ok := x.(*ssa.Phi)
					if !ok {
						break
					}
					if !isIntType(ph.Type()) || pi < 0 {
						continue
					}
					feeds := false
					for _, ps := range posStores {
						if dependsOn(ps.Val, func(v ssa.Value) bool { return v == ssa.Value(ph) }) {
							feeds = true
						}
					}
					if !feeds {
						continue
					}
					found++
					if k, isK := constInt(ph.Edges[pi]); !isK || k != 0 {
						good = false
					}
				}
			}
			r.Check(found > 0 && good, "C07.undo-position-restarts", key, p.IPos(st), "the undone count restarts at 0 after the states list is rewritten", "Undo rewrites the list of states (the text it starts from takes the place of the undone steps) but goes on with the old count of undone steps: the next undo skips states and lands on a text that is not the newest earlier one, and undo followed by redo does not restore the text")
		})
		if n == 0 {
			r.OK("C07.undo-position-restarts", fnName(U)+":no-items-store", p.Pos(U.Pos()), "Undo does not rewrite the list of states")
		}
	} else {
		r.Unk("C07.undo-position-restarts", "(*history.Sources).Undo", "-", "anchor not found")
	}

	r.Rule("C07.pos-is-undone-count", "K3", "Sources.Pos — what vi-redo tests to choose between redoing and re-entering insert mode — returns the number of undone steps (lineHistory.pos, possibly clamped to the number of states) or 0: any other quantity makes redo after undoing everything do something else than redo", 1)
	if P := p.Func("(*history.Sources).Pos"); P != nil {
		r.Fn(fnName(P))
		n := 0
		eachInstr(P, func(in ssa.Instruction) {
			ret, ok := in.(*ssa.Return)
			if !ok || len(ret.Results) != 1 {
				return
			}
			bad := ""
			sawPos := false
			for _, v := range mayValues(ret.Results[0]) {
				if k, isK := constInt(v); isK {
					if k != 0 {
						bad = fmt.Sprintf("constant %d", k)
					}
					continue
				}
				if isFieldLoad(v, tn, "pos") {
					sawPos = true
					continue
				}
				if cl, isC := v.(*ssa.Call); isC && isLenCall(cl) && isFieldLoad(cl.Call.Args[0], tn, "items") {
					continue
				}
				bad = p.descValue(v)
			}
			_ = sawPos
			r.Check(bad == "", "C07.pos-is-undone-count", siteKey(P, "return", n), p.IPos(in), "0, lineHistory.pos, or its clamp", "Sources.Pos returns "+bad+" instead of the number of undone steps: after undoing back to the initial text vi-redo sees nothing to redo and enters insert mode")
			n++
		})
		// the caller's test
		if VR := p.Func("(*readline.Shell).viRedo"); VR != nil {
			okTest := false
			for _, cl := range callsTo(VR, false, "(*history.Sources).Pos") {
				for _, ref := range referrersOf(cl.Value()) {
					if bo, isBo := ref.(*ssa.BinOp); isBo {
						if k, isK := constInt(bo.Y); isK && k == 0 && (bo.Op == token.GTR || bo.Op == token.NEQ) {
							okTest = true
						}
						if k, isK := constInt(bo.Y); isK && k == 1 && bo.Op == token.GEQ {
							okTest = true
						}
					}
				}
			}
			r.Check(okTest, "C07.pos-is-undone-count", fnName(VR)+":tests-pos>0", p.Pos(VR.Pos()), "vi-redo redoes when Pos() > 0", "vi-redo no longer tests Pos() > 0")
		}
	} else {
		r.Unk("C07.pos-is-undone-count", "(*history.Sources).Pos", "-", "anchor not found")
	}
}
