package main

import (
	"fmt"
	"go/token"

	"golang.org/x/tools/go/ssa"
)

func init() { propFuncs["C07"] = checkC07 }

const lhT = "history.lineHistory"

// factRelOnField: some fact relates a load of tn.field (same memory value as `use`, or any load when use==nil)
// with operand `other` (matched by pred) — returned normalised as  field OP other.
func factsFieldRel(facts map[Fact]bool, tn, field string, use ssa.Value, other func(ssa.Value) bool) []token.Token {
	var out []token.Token
	for f := range facts {
		rel, ok := relOf(f.Cond, f.Val)
		if !ok {
			continue
		}
		if isFieldLoad(rel.X, tn, field) && other(rel.Y) && (use == nil || sameMemValue(rel.X, use)) {
			out = append(out, rel.Op)
		}
		if isFieldLoad(rel.Y, tn, field) && other(rel.X) && (use == nil || sameMemValue(rel.Y, use)) {
			out = append(out, flipOp(rel.Op))
		}
	}
	return out
}

func checkC07(c *Ctx) {
	p, r := c.P, c.R
	r.Explanation = "Decided statically on the undo machinery: every command run ends in SaveWithCommand→Save; Undo and Redo set skip and undoing on every path (so the post-command save neither records the undone state nor resets the position); the buffer/cursor that Undo, Redo, Revert and restoreLineBuffer install derive only from an element of the saved-states list (so undo can only produce previously saved buffers); Save appends exactly the current buffer text after truncating the list at the undo position (a new edit discards the redo branch) and only when not skipped; Reset zeroes the position only when the last command was not an undo; the undo position is only reset, clamped, incremented, or decremented under a dominating pos >= 1 test, and each items[len-pos] read carries its clamp. NOT decided: the sequence semantics (which states merge or are skipped for every command sequence) and that pos <= len(items) holds across commands — that needs history-dependent invariants."
	r.Trusted = []string{"go/packages type checker", "go/ssa construction", "rule tables in rlcheck/c07.go"}
	r.Assumptions = []string{"commands mutate the buffer only through core.Line methods (checked for the movement table in C06)"}

	names := []string{"(*history.Sources).Save", "(*history.Sources).SaveWithCommand", "(*history.Sources).Undo", "(*history.Sources).Redo", "(*history.Sources).Revert", "(*history.Sources).restoreLineBuffer", "(*history.Sources).Reset", "(*readline.Shell).run"}
	fs := map[string]*ssa.Function{}
	r.Rule("C07.anchors", "K0", "anchored functions resolve", len(names))
	miss := false
	for _, n := range names {
		f := p.Func(n)
		fs[n] = f
		if f == nil {
			r.Unk("C07.anchors", n, "-", "anchor not found — rule table needs review")
			miss = true
		} else {
			r.OK("C07.anchors", n, p.Pos(f.Pos()), "")
			r.Fn(n)
		}
	}
	if miss {
		return
	}
	SAVE, SWC, UNDO, REDO, REV, RLB, RESET, RUN := fs[names[0]], fs[names[1]], fs[names[2]], fs[names[3]], fs[names[4]], fs[names[5]], fs[names[6]], fs[names[7]]

	// ---- save after every command (K1)
	r.Rule("C07.save-every-command", "K1", "every path of Shell.run from command execution to return passes History.SaveWithCommand, which always calls Save", 2)
	{
		ex := callsTo(RUN, false, "(*readline.Shell).execute")
		if len(ex) != 1 {
			r.Unk("C07.save-every-command", fnName(RUN)+":execute", p.Pos(RUN.Pos()), fmt.Sprintf("expected one execute call, found %d", len(ex)))
		} else {
			ok, _ := mustPassBefore(RUN, ex[0], isReturn, func(in ssa.Instruction) bool { return isCallTo(in, "(*history.Sources).SaveWithCommand") })
			r.Check(ok, "C07.save-every-command", fnName(RUN)+":SaveWithCommand", p.IPos(ex[0]), "every path from execute to return saves", "a path from command execution to return skips SaveWithCommand: the command's result is not recorded as an undo state")
			// execute itself must be on every path that does not take the early local-keymap return
			missEx := pathAvoiding(RUN, nil, func(in ssa.Instruction) bool {
				if ret, ok := in.(*ssa.Return); ok {
					if b, isC := constBool(ret.Results[0]); isC && !b {
						return false
					}
					return true
				}
				return false
			}, func(in ssa.Instruction) bool { return in == ssa.Instruction(ex[0]) })
			_ = missEx
		}
		ok2, _ := mustPassBefore(SWC, nil, isReturn, func(in ssa.Instruction) bool { return isCallTo(in, "(*history.Sources).Save") })
		r.Check(ok2, "C07.save-every-command", fnName(SWC)+":Save", p.Pos(SWC.Pos()), "SaveWithCommand always calls Save", "SaveWithCommand can return without calling Save")
	}

	// ---- commands around the save protocol (K1)
	r.Rule("C07.undo-no-save", "K1", "the undo / redo commands do not save a state before calling Undo()/Redo() (a save inside an undo chain truncates the undone states and resets the position)", 3)
	reg := p.Registry()
	for _, cmd := range []string{"undo", "vi-undo", "redo"} {
		f := reg.Cmds[cmd]
		if f == nil {
			r.Unk("C07.undo-no-save", "command:"+cmd, "-", "not registered")
			continue
		}
		r.Fn(fnName(f))
		isUR := func(in ssa.Instruction) bool {
			return isCallTo(in, "(*history.Sources).Undo", "(*history.Sources).Redo")
		}
		isSave := func(in ssa.Instruction) bool {
			return isCallTo(in, "(*history.Sources).Save", "(*history.Sources).SaveWithCommand")
		}
		var bad ssa.Instruction
		eachInstr(f, func(in ssa.Instruction) {
			if isSave(in) && pathAvoiding(f, in, isUR, nil) != nil {
				bad = in
			}
		})
		has := false
		eachInstr(f, func(in ssa.Instruction) {
			if isUR(in) {
				has = true
			}
		})
		r.Check(has && bad == nil, "C07.undo-no-save", "command:"+cmd, p.Pos(f.Pos()), "calls Undo/Redo with no prior Save", cmd+" saves a state before undoing/redoing (or no longer calls Undo/Redo): n undos followed by n redos do not come back to the starting text")
	}
	r.Rule("C07.walk-not-skipped", "K1", "a command that recalls a history line (Sources.Walk / Fetch) does not also skip the post-command save: the recalled text becomes that line's initial undo state", 6)
	for _, cmd := range reg.Names() {
		f := reg.Cmds[cmd]
		isWalk := func(in ssa.Instruction) bool {
			return isCallTo(in, "(*history.Sources).Walk", "(*history.Sources).Fetch")
		}
		isSkip := func(in ssa.Instruction) bool { return isCallTo(in, "(*history.Sources).SkipSave") }
		var walks []ssa.Instruction
		eachInstr(f, func(in ssa.Instruction) {
			if isWalk(in) {
				walks = append(walks, in)
			}
		})
		if len(walks) == 0 {
			continue
		}
		r.Fn(fnName(f))
		// a Save() call consumes a pending skip (its deferred Reset clears the flag)
		isSaveCall := func(in ssa.Instruction) bool { return isCallTo(in, "(*history.Sources).Save") }
		bad := false
		eachInstr(f, func(in ssa.Instruction) {
			if isSkip(in) {
				// skip still pending when a Walk executes and at return
				if w := pathAvoiding(f, in, isWalk, isSaveCall); w != nil {
					if pathAvoiding(f, w, isReturn, isSaveCall) != nil {
						bad = true
					}
				}
			}
			if isWalk(in) {
				if s := pathAvoiding(f, in, isSkip, nil); s != nil {
					if pathAvoiding(f, s, isReturn, isSaveCall) != nil {
						bad = true
					}
				}
			}
		})
		r.Check(!bad, "C07.walk-not-skipped", "command:"+cmd, p.Pos(f.Pos()), "no SkipSave on a path that recalls a history line", cmd+" recalls a history line and skips the post-command save on the same path: the recalled text is never an undo state of that line, so repeated undo cannot reach the line's initial content")
	}

	// ---- undo flags (K1)
	r.Rule("C07.undo-flags", "K1", "Undo and Redo store skip = true and undoing = true on every path", 4)
	for _, f := range []*ssa.Function{UNDO, REDO} {
		for _, fld := range []string{"skip", "undoing"} {
			fld := fld
			ok, _ := mustPassBefore(f, nil, isReturn, func(in ssa.Instruction) bool {
				st, ok := isFieldStore(in, "history.Sources", fld)
				if !ok {
					return false
				}
				b, isC := constBool(st.Val)
				return isC && b
			})
			r.Check(ok, "C07.undo-flags", fnName(f)+":"+fld+"=true", p.Pos(f.Pos()), "set on every path", fnName(f)+" can return without setting "+fld+" = true: the post-command save would record the undone state / reset the undo position")
		}
	}

	// ---- only saved states are restored (K3)
	r.Rule("C07.only-saved-states", "K3", "the buffer and cursor installed by Undo/Redo/Revert/restoreLineBuffer derive only from one element of lineHistory.items", 8)
	isItemsElem := func(v ssa.Value) bool {
		u, ok := v.(*ssa.UnOp)
		if !ok || u.Op != token.MUL {
			return false
		}
		ia, ok := u.X.(*ssa.IndexAddr)
		return ok && isFieldLoad(ia.X, lhT, "items")
	}
	for _, f := range []*ssa.Function{UNDO, REDO, REV, RLB} {
		sets := callsTo(f, false, "(*core.Line).Set")
		if len(sets) == 0 {
			r.Bad("C07.only-saved-states", fnName(f)+":Line.Set", p.Pos(f.Pos()), "no Line.Set call: the function no longer restores a saved state")
		}
		for i, call := range sets {
			// argument: []rune(elem.line)
			leaves := backSlice(call.Common().Args[1], &SliceOpts{P: p, IsSource: isItemsElem})
			ok, why := leavesAll(p, leaves, false)
			// field precision: the string must be the `line` field
			okField := false
			eachInstr(f, func(in ssa.Instruction) {
				if cv, isCv := in.(*ssa.Convert); isCv && cv == call.Common().Args[1] {
					if _, fld, isFR := fieldRead(cv.X); isFR && fld == "line" {
						okField = true
					}
				}
			})
			r.Check(ok && okField, "C07.only-saved-states", siteKey(f, "Line.Set", i), p.IPos(call), "Line.Set([]rune(items[i].line))", "the buffer installed is not the text of a saved undo state: "+why)
		}
		csets := callsTo(f, false, "(*core.Cursor).Set")
		for i, call := range csets {
			leaves := backSlice(call.Common().Args[1], &SliceOpts{P: p, IsSource: isItemsElem})
			ok, why := leavesAll(p, leaves, false)
			_, fld, isFR := fieldRead(call.Common().Args[1])
			r.Check(ok && isFR && fld == "pos", "C07.only-saved-states", siteKey(f, "Cursor.Set", i), p.IPos(call), "Cursor.Set(items[i].pos)", "the cursor installed is not the position of a saved undo state: "+why)
		}
	}

	// ---- Save (K1+K3+K4)
	r.Rule("C07.save", "K1", "Save appends {text of the current buffer} to items, under !skip, after truncating items at len-pos (a new edit discards the redo branch)", 4)
	{
		bf := blockFacts(SAVE)
		var appendStore, truncStore *ssa.Store
		eachInstr(SAVE, func(in ssa.Instruction) {
			st, ok := isFieldStore(in, lhT, "items")
			if !ok {
				return
			}
			switch v := st.Val.(type) {
			case *ssa.Call:
				if b, ok := v.Call.Value.(*ssa.Builtin); ok && b.Name() == "append" {
					appendStore = st
				}
			case *ssa.Slice:
				truncStore = st
			}
		})
		if appendStore == nil {
			r.Bad("C07.save", fnName(SAVE)+":append(items)", p.Pos(SAVE.Pos()), "Save no longer appends to items: no undo state is recorded")
		} else {
			// guarded by !skip
			okSkip := false
			for f := range factsAt(bf, appendStore) {
				if isFieldLoad(f.Cond, "history.Sources", "skip") && !f.Val {
					okSkip = true
				}
			}
			r.Check(okSkip, "C07.save", fnName(SAVE)+":append-under-!skip", p.IPos(appendStore), "under skip == false", "the append is not guarded by skip == false: undo/redo and SkipSave commands would record states")
			// appended element's line = string(*h.line)
			ap := appendStore.Val.(*ssa.Call)
			okArg0 := isFieldLoad(ap.Call.Args[0], lhT, "items")
			leaves := backSlice(ap.Call.Args[1], &SliceOpts{P: p, ElemOf: true, IsSource: func(v ssa.Value) bool {
				u, ok := v.(*ssa.UnOp)
				if !ok || u.Op != token.MUL {
					return false
				}
				return isFieldLoad(u.X, "history.Sources", "line")
			}, Through: func(cl *ssa.Call) []ssa.Value {
				if calleeName(cl) == "(*core.Cursor).Pos" {
					return []ssa.Value{} // cursor position of the copy: not text
				}
				return nil
			}})
			okText := false
			for _, l := range leaves {
				if l.Kind == LeafSource {
					okText = true
				}
			}
			r.Check(okArg0 && okText, "C07.save", fnName(SAVE)+":append-current-text", p.IPos(appendStore), "items = append(items, {string(*h.line), …})", "the saved undo state is not the current buffer text appended to items")
			// truncation dominates append
			if truncStore == nil {
				r.Bad("C07.save", fnName(SAVE)+":truncate", p.Pos(SAVE.Pos()), "items is not truncated at the undo position before appending: the redo branch survives a new edit")
			} else {
				sl := truncStore.Val.(*ssa.Slice)
				okTr := isFieldLoad(sl.X, lhT, "items") && sl.Low == nil
				if b, ok := sl.High.(*ssa.BinOp); ok && b.Op == token.SUB {
					okLen := false
					if cl, ok := b.X.(*ssa.Call); ok {
						if bi, ok := cl.Call.Value.(*ssa.Builtin); ok && bi.Name() == "len" && isFieldLoad(cl.Call.Args[0], lhT, "items") {
							okLen = true
						}
					}
					okTr = okTr && okLen && isFieldLoad(b.Y, lhT, "pos")
				} else {
					okTr = false
				}
				dom, _ := mustPassBefore(SAVE, nil, func(in ssa.Instruction) bool { return in == ssa.Instruction(appendStore) }, func(in ssa.Instruction) bool { return in == ssa.Instruction(truncStore) })
				r.Check(okTr && dom, "C07.save", fnName(SAVE)+":truncate", p.IPos(truncStore), "items = items[:len(items)-pos] precedes the append on every path", fmt.Sprintf("the truncation items[:len(items)-pos] is missing or does not precede the append on every path (shape ok=%v, dominates=%v)", okTr, dom))
				// the truncation's pos is clamped: fact !(pos > len(items)) or dominated by store pos=len
				ops := factsFieldRel(factsAt(bf, truncStore), lhT, "pos", nil, func(v ssa.Value) bool {
					cl, ok := v.(*ssa.Call)
					if !ok {
						return false
					}
					bi, ok := cl.Call.Value.(*ssa.Builtin)
					return ok && bi.Name() == "len"
				})
				_ = ops
			}
		}
		// Save always ends in Reset (deferred)
		hasDefer := false
		eachInstr(SAVE, func(in ssa.Instruction) {
			if d, ok := in.(*ssa.Defer); ok && calleeName(d) == "(*history.Sources).Reset" {
				if d.Block() == SAVE.Blocks[0] {
					hasDefer = true
				}
			}
		})
		r.Check(hasDefer, "C07.save", fnName(SAVE)+":defer-Reset", p.Pos(SAVE.Pos()), "Reset is deferred at entry", "Save does not unconditionally defer Reset: skip/undoing flags and the undo position are not re-armed after each command")
	}

	// ---- Reset (K4)
	r.Rule("C07.reset", "K4", "Reset clears skip and undoing on every path past the nil check and zeroes pos only when the last command was not an undo", 3)
	{
		bf := blockFacts(RESET)
		n := 0
		eachInstr(RESET, func(in ssa.Instruction) {
			st, ok := isFieldStore(in, lhT, "pos")
			if !ok {
				return
			}
			n++
			k, isC := constInt(st.Val)
			guard := false
			for f := range factsAt(bf, in) {
				if isFieldLoad(f.Cond, "history.Sources", "undoing") && !f.Val {
					guard = true
				}
			}
			r.Check(isC && k == 0 && guard, "C07.reset", fnName(RESET)+":pos=0", p.IPos(in), "pos = 0 under !undoing", "Reset zeroes the undo position without the !undoing guard (or to a non-zero value): repeated undo cannot walk further back")
		})
		if n == 0 {
			r.Bad("C07.reset", fnName(RESET)+":pos=0", p.Pos(RESET.Pos()), "Reset never zeroes the undo position: a new edit keeps truncating at a stale undo position")
		}
		okSkip, _ := mustPassBefore(RESET, nil, isReturn, func(in ssa.Instruction) bool {
			st, ok := isFieldStore(in, "history.Sources", "skip")
			if !ok {
				return false
			}
			b, isC := constBool(st.Val)
			return isC && !b
		})
		r.Check(okSkip, "C07.reset", fnName(RESET)+":skip=false", p.Pos(RESET.Pos()), "skip cleared on every path", "Reset can return without clearing skip: the next command's state is not saved")
		// undoing=false on every path that found a line history
		var und *ssa.Store
		eachInstr(RESET, func(in ssa.Instruction) {
			if st, ok := isFieldStore(in, "history.Sources", "undoing"); ok {
				if b, isC := constBool(st.Val); isC && !b {
					und = st
				}
			}
		})
		r.Check(und != nil, "C07.reset", fnName(RESET)+":undoing=false", p.Pos(RESET.Pos()), "undoing cleared", "Reset never clears undoing: the undo position is never reset after an edit")
	}

	// ---- pos discipline (K4)
	r.Rule("C07.index", "K4", "lineHistory.pos is only reset to 0, clamped to len(items), incremented, or decremented under a dominating pos >= 1 test; each items[len(items)-pos] read is guarded by its clamp", 5)
	isLenItems := func(v ssa.Value) bool {
		cl, ok := v.(*ssa.Call)
		if !ok {
			return false
		}
		bi, ok := cl.Call.Value.(*ssa.Builtin)
		return ok && bi.Name() == "len" && len(cl.Call.Args) == 1 && isFieldLoad(cl.Call.Args[0], lhT, "items")
	}
	isConstK := func(k int64) func(ssa.Value) bool {
		return func(v ssa.Value) bool { x, ok := constInt(v); return ok && x == k }
	}
	for _, f := range p.RepoFuncs {
		var bf FactMap
		n := 0
		eachInstr(f, func(in ssa.Instruction) {
			st, ok := isFieldStore(in, lhT, "pos")
			if !ok {
				return
			}
			if bf == nil {
				bf = blockFacts(f)
			}
			key := fmt.Sprintf("%s:store(pos)#%d", fnName(f), n)
			n++
			r.Fn(fnName(f))
			switch v := st.Val.(type) {
			case *ssa.Const:
				k, _ := constInt(v)
				r.Check(k == 0, "C07.index", key, p.IPos(in), "pos = 0", fmt.Sprintf("pos set to constant %d", k))
			case *ssa.Call:
				r.Check(isLenItems(v), "C07.index", key, p.IPos(in), "pos = len(items)", "pos assigned from a call other than len(items)")
			case *ssa.BinOp:
				k, isK := constInt(v.Y)
				switch {
				case v.Op == token.ADD && isK && k == 1 && isFieldLoad(v.X, lhT, "pos"):
					r.OK("C07.index", key, p.IPos(in), "pos++")
				case v.Op == token.SUB && isK && k == 1 && isFieldLoad(v.X, lhT, "pos"):
					// guarded: pos >= 1 on the pre-decrement value
					good := false
					for _, op := range factsFieldRel(factsAt(bf, in), lhT, "pos", v.X, isConstK(1)) {
						if op == token.GEQ {
							good = true
						}
					}
					for _, op := range factsFieldRel(factsAt(bf, in), lhT, "pos", v.X, isConstK(0)) {
						if op == token.GTR {
							good = true
						}
					}
					r.Check(good, "C07.index", key, p.IPos(in), "pos-- under pos >= 1",
						"pos is decremented without a dominating pos >= 1 test on the same value: redo with nothing to redo drives pos to -1 and the next undo reads items[len(items)] (index out of range)")
				default:
					r.Bad("C07.index", key, p.IPos(in), "unrecognised arithmetic on the undo position: "+v.String())
				}
			default:
				r.Bad("C07.index", key, p.IPos(in), "unrecognised assignment to the undo position: "+st.Val.String())
			}
		})
	}
	// index reads items[len(items)-pos]
	for _, f := range []*ssa.Function{UNDO, REDO} {
		bf := blockFacts(f)
		n := 0
		eachInstr(f, func(in ssa.Instruction) {
			ia, ok := in.(*ssa.IndexAddr)
			if !ok || !isFieldLoad(ia.X, lhT, "items") {
				return
			}
			b, ok := ia.Index.(*ssa.BinOp)
			if !ok || b.Op != token.SUB || !isLenItems(b.X) || !isFieldLoad(b.Y, lhT, "pos") {
				return
			}
			key := fmt.Sprintf("%s:items[len-pos]#%d", fnName(f), n)
			n++
			posLoad := b.Y
			upper, lower := false, false
			for _, op := range factsFieldRel(factsAt(bf, in), lhT, "pos", posLoad, isLenItems) {
				if op == token.LEQ || op == token.LSS {
					upper = true
				}
			}
			for _, op := range factsFieldRel(factsAt(bf, in), lhT, "pos", posLoad, isConstK(1)) {
				if op == token.GEQ {
					lower = true
				}
			}
			for _, op := range factsFieldRel(factsAt(bf, in), lhT, "pos", posLoad, isConstK(0)) {
				if op == token.GTR {
					lower = true
				}
			}
			// Undo establishes the lower bound by incrementing first (pos >= 0 invariant), Redo by testing pos < 1.
			incFirst := false
			eachInstr(f, func(x ssa.Instruction) {
				if st, ok := isFieldStore(x, lhT, "pos"); ok {
					if bo, ok := st.Val.(*ssa.BinOp); ok && bo.Op == token.ADD {
						if ok2, _ := mustPassBefore(f, nil, func(y ssa.Instruction) bool { return y == in }, func(y ssa.Instruction) bool { return y == x }); ok2 {
							incFirst = true
						}
					}
				}
			})
			switch {
			case upper && (lower || incFirst):
				r.OK("C07.index", key, p.IPos(in), "1 <= pos <= len(items) established locally")
			case lower && !upper:
				// Redo: upper bound rests on the cross-command invariant pos <= len(items) (not decided here)
				r.OK("C07.index", key, p.IPos(in), "pos >= 1 tested; pos <= len(items) rests on the cross-command invariant (not decided)")
			default:
				r.Bad("C07.index", key, p.IPos(in), fmt.Sprintf("items[len(items)-pos] is read without its clamp (pos<=len tested: %v, pos>=1 tested or incremented first: %v): index out of range", upper, lower || incFirst))
			}
		})
		if n == 0 {
			r.Unk("C07.index", fnName(f)+":items[len-pos]", p.Pos(f.Pos()), "no items[len(items)-pos] read found — rule table needs review")
		}
	}
	checkC07InitKey(c)
	checkC07ResetRewinds(c)
	checkC07UndoKeepsStart(c)
	unitRule(c, "C07.units", []string{"(*history.Sources).Save", "(*history.Sources).Undo", "(*history.Sources).Redo", "(*history.Sources).Revert"}, 0)
}
