#!/bin/bash
# usage: tools/regress_seeds.sh [seed-dir-name ...]
# Sensitivity regression over the stored seeded changes (static part only: the dynamic
# confirmation of each change was done once by tools/eval_seed.sh and is recorded in its
# meta.json).  Every change whose meta.json says DETECTED must make each of its
# firing_rules fire as a NEW rule|construct relative to the clean tree; changes recorded
# as MISSED are reported as such (and flagged if a check now catches them).
# Prints DETECTED / MISSED / EXPECTED-MISS / NOW-DETECTED / STALE lines only.
set -u
V=$(cd "$(dirname "$0")/.." && pwd)
J=${JOBS:-6}
T=$(mktemp -d /tmp/rl-seedreg.XXXXXX)
trap 'for w in "$T"/w*; do git -C /repo worktree remove --force "$w" >/dev/null 2>&1; done; rm -rf "$T"; git -C /repo worktree prune' EXIT
# RLBIN=<binary>: use a development build instead of bin/rlcheck
if [ -n "${RLBIN:-}" ]; then BIN=$RLBIN; else "$V/check" C01 >/dev/null 2>&1 || true; BIN="$V/bin/rlcheck"; fi
fired() { # <worktree> <verifdir> <ids...>
  local w=$1 s=$2; shift 2
  for id in "$@"; do
    "$BIN" check "$id" --repo "$w" --verif "$s" 2>&1 | grep "violated:\|undecided:" \
      | sed "s/^ *[a-z]*: rule=\([^ ]*\) construct=\(.*\) at [^ ]*: .*/$id \1 \2/"
  done | sort -u
}
export -f fired; export BIN V T
# baseline on a clean worktree of HEAD (+ uncommitted changes are NOT included: seeds are diffs against commits)
git -C /repo worktree add -f --detach "$T/w0" HEAD >/dev/null 2>&1 || exit 2
mkdir -p "$T/s0/evidence"; cp "$V/known_findings.jsonl" "$T/s0/"
fired "$T/w0" "$T/s0" $("$BIN" list) > "$T/base.txt"
one() {
  d=$1; name=$(basename "$d"); w="$T/w-$name"; s="$T/s-$name"
  git -C /repo worktree add -f --detach "$w" HEAD >/dev/null 2>&1 || { echo "STALE    $name (no worktree)"; return; }
  mkdir -p "$s/evidence"; cp "$V/known_findings.jsonl" "$s/"
  if ! git -C "$w" apply "$d/patch.diff" 2>/dev/null; then echo "STALE    $name (patch no longer applies to HEAD)"; git -C /repo worktree remove --force "$w"; return; fi
  want=$(python3 -c "import json;m=json.load(open('$d/meta.json'));print(' '.join(m.get('firing_rules',[])))")
  prop=$(python3 -c "import json;m=json.load(open('$d/meta.json'));print(m['breaks_property'])")
  ids=$( { echo "$prop"; for r in $want; do echo "${r%%.*}"; done; } | sort -u)
  fired "$w" "$s" $ids > "$s/mut.txt"
  new=$(comm -13 "$T/base.txt" "$s/mut.txt")
  if [ -z "$want" ]; then
    if [ -z "$new" ]; then echo "EXPECTED-MISS $name"; else echo "NOW-DETECTED $name: $(echo "$new" | cut -d' ' -f2 | sort -u | paste -sd,)"; fi
  else
    miss=""
    for r in $want; do echo "$new" | grep -q " $r " || miss="$miss $r"; done
    if [ -z "$miss" ]; then echo "DETECTED $name: $(echo "$new" | cut -d' ' -f2 | sort -u | paste -sd,)"; else echo "MISSED   $name: rule(s) no longer fire:$miss"; fi
  fi
  git -C /repo worktree remove --force "$w" >/dev/null 2>&1; rm -rf "$s"
}
export -f one
if [ $# -gt 0 ]; then list=$(for n in "$@"; do echo "$V/seeded/$n"; done); else list=$(ls -d "$V"/seeded/*/); fi
echo "$list" | sed 's:/$::' | xargs -P "$J" -I{} bash -c 'one {}' | sort > "$T/out.txt"
cat "$T/out.txt"
n=$(grep -c . "$T/out.txt"); bad=$(grep -c "^MISSED\|^STALE" "$T/out.txt")
echo "seeded changes: $n evaluated, $(grep -c '^DETECTED' "$T/out.txt") detected, $(grep -c '^EXPECTED-MISS' "$T/out.txt") expected misses, $bad regressions"
[ "$bad" -eq 0 ]
