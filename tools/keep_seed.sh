#!/bin/bash
# usage: tools/keep_seed.sh <Cxx> <mK> [outdir=/tmp/seed-<Cxx>-out]  — re-evaluates and stores a confirmed seeded change under /verif/seeded/
pid=$1; mk=$2; od=${3:-/tmp/seed-$pid-out}; src=$od/$mk; dst=/verif/seeded/$pid-$mk
out=$(/verif/tools/eval_seed.sh $pid $mk $od 2>&1)
echo "$out" | grep -q "^CONFIRMED" || { echo "$out" | tail -3; echo "not kept"; exit 1; }
mkdir -p $dst
cp $src/patch.diff $dst/; cp $src/*_test.go $dst/ 2>/dev/null
res=$(echo "$out" | grep "^RESULT" | sed 's/^RESULT [^:]*: //')
rules=$(echo "$out" | grep -o "rule=[A-Za-z0-9.-]*" | sort -u | sed 's/rule=//' | paste -sd, )
python3 - "$src/meta.json" "$dst/meta.json" "$res" "$rules" "$(git -C /repo rev-parse --short HEAD)" <<'PY'
import json,sys
m=json.load(open(sys.argv[1]))
m['breaks_property']=m.get('property')
m['verdict']=sys.argv[3]
m['firing_rules']=[r for r in sys.argv[4].split(',') if r]
m['confirmed_by']='tools/eval_seed.sh: in a scratch worktree of /repo at %s — demo passes on the clean tree; patch applies; go build ./... ok; go test -vet=off -count=1 ./... ok with the patch; demo fails with the patch; then every ./check ran against the patched scratch tree' % sys.argv[5]
m['origin']='independent sub-agent given only the property text and a scratch worktree'
json.dump(m,open(sys.argv[2],'w'),indent=1)
PY
echo "kept $dst: $res [$rules]"
