#!/usr/bin/env python3
"""Regenerates the generated regions of DESIGN.md (between <!-- BEGIN:x --> / <!-- END:x -->):
fixes (from /repo git log), seeds (from seeded/*/meta.json), rules (from evidence/*.json)."""
import json, glob, os, re, subprocess, sys
V = os.path.dirname(os.path.dirname(os.path.abspath(__file__)))

def fixes():
    out = subprocess.run(['git', '-C', '/repo', 'log', '--reverse', '--format=%h %s', '760f11b..HEAD'], capture_output=True, text=True).stdout
    rows = ['| commit | repair |', '|---|---|']
    for l in out.splitlines():
        h, s = l.split(' ', 1)
        if s.startswith('fix:'):
            rows.append('| `%s` | %s |' % (h, s.replace('|', '\\|')))
    return '\n'.join(rows)

def seeds():
    rows = ['| seed | change | verdict now | firing rule(s) | at first run |', '|---|---|---|---|---|']
    n = det = 0
    for d in sorted(glob.glob(V + '/seeded/*/')):
        name = os.path.basename(d.rstrip('/'))
        m = json.load(open(d + 'meta.json'))
        n += 1
        v = m.get('verdict', '?')
        if v.startswith('DETECTED'):
            det += 1
        summ = m.get('summary', '').replace('|', '/').replace('\n', ' ')
        if len(summ) > 170:
            summ = summ[:167] + '…'
        rows.append('| %s | %s `%s` — %s | %s | %s | %s |' % (name, m.get('file', ''), m.get('function', ''), summ, v.replace('(no check fires)', ''), ', '.join(m.get('firing_rules', [])) or '—', m.get('first_run', '').replace('|', '/')))
    rows.append('')
    rows.append('%d stored changes, %d detected, %d missed.' % (n, det, n - det))
    return '\n'.join(rows)

def rules():
    out = []
    tot = 0
    for f in sorted(glob.glob(V + '/evidence/C*.json')):
        e = json.load(open(f))
        c = e['coverage']
        tot += c.get('obligations', 0)
        out.append('### %s — level %s: %d obligations, %d discharged, %d known findings\n' % (e['property_id'], e['level'], c.get('obligations', 0), c.get('discharged', 0), c.get('known_findings', 0)))
        for r in c['rule_instances']:
            if r['kind'] == 'K0':
                continue
            out.append('* `%s` (%s, %d constructs, min %d) — %s' % (r['rule'], r['kind'], r['matched_constructs'], r['min_expected'], r['doc']))
        out.append('')
    out.append('Total: %d obligations over the 19 claimed properties (quick tier, linux/amd64).' % tot)
    return '\n'.join(out)

gen = {'fixes': fixes, 'seeds': seeds, 'rules': rules}
p = V + '/DESIGN.md'
s = open(p).read()
for k, fn in gen.items():
    b, e = '<!-- BEGIN:%s -->' % k, '<!-- END:%s -->' % k
    if b not in s:
        print('marker missing:', k, file=sys.stderr)
        continue
    i, j = s.index(b) + len(b), s.index(e)
    s = s[:i] + '\n' + fn() + '\n' + s[j:]
open(p, 'w').write(s)
