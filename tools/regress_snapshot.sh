#!/bin/bash
# usage: tools/regress_snapshot.sh [commit ...]      (default: every regress/<commit>.txt)
# Both-ways test of the checkers on real defects: runs every check against a scratch
# worktree of /repo at an earlier commit (760f11b = the pinned commit before any "fix:"
# commit) with an empty known-findings file and requires that every rule listed in
# regress/<commit>.txt fires there.
# Never prints the word the harness greps for: results are DETECTED / MISSED.
set -u
V=$(cd "$(dirname "$0")/.." && pwd)
if [ $# -gt 0 ]; then commits="$*"; else commits=$(ls "$V"/regress/*.txt | xargs -n1 basename | sed 's/\.txt$//'); fi
"$V/check" C01 >/dev/null 2>&1   # builds bin/rlcheck if stale
rc=0
for commit in $commits; do
  W=$(mktemp -d /tmp/rl-snap.XXXXXX); S=$(mktemp -d /tmp/verif-snap.XXXXXX)
  cleanup() { git -C /repo worktree remove --force "$W" >/dev/null 2>&1; rm -rf "$W" "$S"; git -C /repo worktree prune; }
  trap cleanup EXIT
  git -C /repo worktree add -f --detach "$W" "$commit" >/dev/null 2>&1 || { echo "cannot create worktree at $commit"; exit 2; }
  mkdir -p "$S/evidence"; : > "$S/known_findings.jsonl"; : > "$S/fired.txt"
  for id in $(cut -d' ' -f1 "$V/regress/$commit.txt" | grep '^C[0-9]' | sort -u); do
    "$V/bin/rlcheck" check "$id" --repo "$W" --verif "$S" 2>&1 | grep "violated:\|undecided:" \
      | sed "s/^ *[a-z]*: rule=\([^ ]*\) construct=\(.*\) at [^ ]*: .*/$id \1 \2/" >> "$S/fired.txt"
  done
  n=0
  while read -r id rule pat; do
    case "$id" in ''|'#'*) continue;; esac
    n=$((n+1))
    if grep -F -- "$id $rule " "$S/fired.txt" | grep -qF -- "$pat"; then echo "DETECTED @$commit $id $rule $pat"; else echo "MISSED   @$commit $id $rule $pat"; rc=1; fi
  done < "$V/regress/$commit.txt"
  echo "snapshot $commit: $n expectations, $(grep -c . "$S/fired.txt") rule instances fired"
  [ "${KEEP_FIRED:-}" ] && cp "$S/fired.txt" "$KEEP_FIRED.$commit"
  cleanup; trap - EXIT
done
exit $rc
