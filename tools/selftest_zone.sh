#!/bin/bash
# usage: tools/selftest_zone.sh
# Soundness / precision self-test of the K9 zone engine on synthetic functions
# (selftest/zone/zone.go): every Bad* function must keep at least one unproved
# site, every Good* function none. Prints DETECTED / MISSED lines only.
set -u
V=$(cd "$(dirname "$0")/.." && pwd)
"$V/check" C01 >/dev/null 2>&1 || true
out=$("$V/bin/rlcheck" zone --repo "$V/selftest/zone" 2>&1)
rc=0
for f in $(grep -o 'func \(Bad\|Good\)[A-Za-z0-9]*' "$V/selftest/zone/zone.go" | sed 's/func //'); do
  n=$(echo "$out" | grep -c "UNPROVED readline\.$f ")
  case $f in
    Bad*)  if [ "$n" -ge 1 ]; then echo "DETECTED zone $f ($n unproved site(s))"; else echo "MISSED   zone $f: the engine proves a site that can fail"; rc=1; fi;;
    Good*) if [ "$n" -eq 0 ]; then echo "DETECTED zone $f (proved)"; else echo "MISSED   zone $f: $n site(s) of a safe function unproved"; rc=1; fi;;
  esac
done
exit $rc
