#!/bin/bash
# usage: tools/eval_seed.sh <Cxx> <mK> [outdir=/tmp/seed-<Cxx>-out]
# Confirms a seeded change (compiles, suite passes, demo fails with / passes without), then
# runs every check against /repo with the patch applied and reports which properties fire.
set -u
pid=$1; mk=$2; out=${3:-/tmp/seed-$pid-out}; d=$out/$mk
W=/tmp/rl-seedcheck
[ -f "$d/patch.diff" ] || { echo "no patch in $d"; exit 2; }
demo=$(python3 -c "import json;print(json.load(open('$d/meta.json'))['demo_path'])")
demofile=$(ls $d/*_test.go 2>/dev/null | head -1)
[ -n "$demofile" ] || { echo "no demo test file"; exit 2; }
git -C /repo worktree add -f --detach $W HEAD >/dev/null 2>&1 || { git -C $W reset -q --hard; git -C $W clean -fdq; git -C $W checkout -q --detach $(git -C /repo rev-parse HEAD); }
cd $W && git reset -q --hard && git clean -fdq
pkg=./$(dirname $demo)
run=$(grep -o 'func Test[A-Za-z0-9_]*' $demofile | sed 's/func //' | paste -sd'|')
# clean tree: demo passes
cp $demofile $W/$demo
if ! go test -vet=off -count=1 -run "$run" $pkg >/tmp/seed_clean.log 2>&1; then echo "REJECT: demo fails on the clean tree"; tail -5 /tmp/seed_clean.log; exit 3; fi
rm -f $W/$demo
# patch applies
if ! git apply --check $d/patch.diff 2>/dev/null; then echo "REJECT: patch does not apply to /repo HEAD"; exit 3; fi
git apply $d/patch.diff
go build ./... >/tmp/seed_build.log 2>&1 || { echo "REJECT: does not compile"; exit 3; }
if ! go test -vet=off -count=1 ./... >/tmp/seed_suite.log 2>&1; then echo "REJECT: existing suite fails with the patch"; grep -v "no test files" /tmp/seed_suite.log | tail -5; exit 3; fi
cp $demofile $W/$demo
if go test -vet=off -count=1 -run "$run" $pkg >/tmp/seed_mut.log 2>&1; then echo "REJECT: demo passes with the patch"; exit 3; fi
rm -f $W/$demo
echo "CONFIRMED $pid/$mk: compiles, suite passes, demo fails with patch and passes without"
# run the checks against the clean and the patched scratch tree; only NEW violations count
cd /verif
viol() { # prints "id rule construct" lines for every violated/undecided obligation (checks run in parallel)
  ./bin/rlcheck list | tr " " "\n" | grep . | xargs -P 8 -I{} sh -c "./bin/rlcheck check {} --repo $W --verif /tmp/verif-seed-{} 2>&1 | grep 'violated:\|undecided:' | sed 's/^ *[a-z]*: rule=\([^ ]*\) construct=\(.*\) at [^ ]*: .*/{} \1 \2/'" | sort -u
}
for id in $(./bin/rlcheck list); do mkdir -p /tmp/verif-seed-$id/evidence; : > /tmp/verif-seed-$id/known_findings.jsonl; done
head=$(git -C /repo rev-parse --short HEAD); binsum=$(md5sum ./bin/rlcheck | cut -c1-8)
basef=/tmp/seed_base_${head}_${binsum}.txt
(cd $W && git reset -q --hard && git clean -fdq)
[ -s $basef ] || viol > $basef
cp $basef /tmp/seed_base.txt
(cd $W && git apply $d/patch.diff)
viol > /tmp/seed_mut.txt
new=$(comm -13 /tmp/seed_base.txt /tmp/seed_mut.txt)
if [ -z "$new" ]; then echo "RESULT $pid/$mk: MISSED (no check fires)"; else
  echo "$new" | sed 's/^/  new: rule=/' | sed 's/rule=\([A-Z0-9]*\) /[\1] rule=/' | cut -c1-240 | head -8
  echo "RESULT $pid/$mk: DETECTED by $(echo "$new" | cut -d' ' -f1 | sort -u | paste -sd' ')"
fi
cd $W && git reset -q --hard && git clean -fdq
