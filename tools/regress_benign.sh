#!/bin/bash
# usage: tools/regress_benign.sh [name ...]
# False-alarm regression over the stored behaviour-preserving refactorings (benign/<Cxx-rN>/:
# patch.diff against /repo commit in benign/BASE, the test its author used to show that the
# behaviour is unchanged, meta.json). Each patch is applied to a scratch worktree of that commit
# and every check is run against it: a rule|construct that is violated or undecided there and was
# not on the unpatched tree is a false alarm. Prints QUIET / ALARM / EXPECTED-ALARM / NOW-QUIET /
# STALE lines only (benign/EXPECTED_ALARMS lists the patches the checks are known not to follow,
# with the reason in DESIGN.md). Never part of a property verdict.
set -u
V=$(cd "$(dirname "$0")/.." && pwd)
J=${JOBS:-6}
BASE=$(cat "$V/benign/BASE")
T=$(mktemp -d /tmp/rl-benignreg.XXXXXX)
trap 'for w in "$T"/w*; do git -C /repo worktree remove --force "$w" >/dev/null 2>&1; done; rm -rf "$T"; git -C /repo worktree prune' EXIT
if [ -n "${RLBIN:-}" ]; then BIN=$RLBIN; else "$V/check" C01 >/dev/null 2>&1 || true; BIN="$V/bin/rlcheck"; fi
fired() { # <worktree> <verifdir> [names-table]
  local w=$1 s=$2
  for id in $("$BIN" list); do
    RLCHECK_PINNED_NAMES="${3:-}" "$BIN" check "$id" --repo "$w" --verif "$s" 2>&1 | grep "violated:\|undecided:" \
      | sed "s/^ *[a-z]*: rule=\([^ ]*\) construct=\(.*\) at [^ ]*: .*/$id \1 \2/"
  done | sort -u
}
export -f fired; export BIN V T BASE
git -C /repo worktree add -f --detach "$T/w0" "$BASE" >/dev/null 2>&1 || exit 2
mkdir -p "$T/s0/evidence"; : > "$T/s0/known_findings.jsonl"
"$BIN" dump-names --repo "$T/w0" > "$T/names-$BASE.json" 2>/dev/null
fired "$T/w0" "$T/s0" "$T/names-$BASE.json" > "$T/base.txt"
# what fires on today's HEAD: a rule that fires on an older base but not here reports a defect repaired since
git -C /repo worktree add -f --detach "$T/w0-HEAD" HEAD >/dev/null 2>&1
mkdir -p "$T/s0-HEAD/evidence"; : > "$T/s0-HEAD/known_findings.jsonl"
fired "$T/w0-HEAD" "$T/s0-HEAD" | cut -d' ' -f2 | sort -u > "$T/rules-HEAD.txt"
# baselines of the other commits patches were written against
for b in $(cat "$V"/benign/*/BASE 2>/dev/null | sort -u); do
  git -C /repo worktree add -f --detach "$T/w0-$b" "$b" >/dev/null 2>&1 || continue
  mkdir -p "$T/s0-$b/evidence"; : > "$T/s0-$b/known_findings.jsonl"
  "$BIN" dump-names --repo "$T/w0-$b" > "$T/names-$b.json" 2>/dev/null
  fired "$T/w0-$b" "$T/s0-$b" "$T/names-$b.json" > "$T/base-$b.txt"
done
one() {
  d=$1; name=$(basename "$d"); w="$T/w-$name"; s="$T/s-$name"
  # a patch written against a later commit than benign/BASE says so in its own BASE file
  base=$BASE; basetxt="$T/base.txt"
  if [ -f "$d/BASE" ]; then base=$(cat "$d/BASE"); basetxt="$T/base-$base.txt"; fi
  git -C /repo worktree add -f --detach "$w" "$base" >/dev/null 2>&1 || { echo "STALE    $name (no worktree)"; return; }
  mkdir -p "$s/evidence"; : > "$s/known_findings.jsonl"
  if ! git -C "$w" apply "$d/patch.diff" 2>/dev/null; then echo "STALE    $name (patch does not apply to $base)"; git -C /repo worktree remove --force "$w"; return; fi
  fired "$w" "$s" "$T/names-$base.json" > "$s/mut.txt"
  # a rule that already reports a (since repaired) defect of the base commit is not counted again when the
  # refactoring merely moves the construct it is reported on
  new=$(comm -13 "$basetxt" "$s/mut.txt" | cut -d' ' -f2 | sort -u | grep -vxF -f <(cut -d' ' -f2 "$basetxt" | sort -u | comm -23 - "$T/rules-HEAD.txt") | paste -sd,)
  exp=$(grep -c "^$name\b" "$V/benign/EXPECTED_ALARMS" 2>/dev/null)
  if [ -z "$new" ]; then
    if [ "$exp" -gt 0 ]; then echo "NOW-QUIET $name"; else echo "QUIET    $name"; fi
  else
    if [ "$exp" -gt 0 ]; then echo "EXPECTED-ALARM $name: $new"; else echo "ALARM    $name: $new"; fi
  fi
  git -C /repo worktree remove --force "$w" >/dev/null 2>&1; rm -rf "$s"
}
export -f one
if [ $# -gt 0 ]; then list=$(for n in "$@"; do echo "$V/benign/$n"; done); else list=$(ls -d "$V"/benign/*/); fi
echo "$list" | sed 's:/$::' | xargs -P "$J" -I{} bash -c 'one {}' | sort > "$T/out.txt"
cat "$T/out.txt"
n=$(grep -c . "$T/out.txt"); bad=$(grep -c "^ALARM\|^STALE" "$T/out.txt")
echo "benign changes: $n evaluated, $(grep -c '^QUIET' "$T/out.txt") quiet, $(grep -c '^EXPECTED-ALARM' "$T/out.txt") expected alarms, $(grep -c '^NOW-QUIET' "$T/out.txt") now quiet, $bad regressions"
[ "$bad" -eq 0 ]
