#!/bin/bash
# usage: tools/repo_commit.sh <message-file>
# Commits the working-tree change of /repo only if it builds and the pinned suite passes.
set -euo pipefail
cd /repo
go build ./... 
out=$(go test -vet=off -count=1 ./... 2>&1) || { echo "$out" | grep -v "no test files"; echo "TESTS FAILED — not committed"; exit 1; }
echo "$out" | grep -v "no test files"
git commit -qa -F "$1"
git log --oneline -n1
