#!/bin/bash
# Runs every claimed check (quick tier) on /repo and refuses to commit on any failure.
# usage: tools/precommit.sh "commit message"
set -u
cd /verif
python3 tools/gen_manifest.py >/dev/null
(cd rlcheck && PATH=/opt/veriftools/go1.26.8/bin:$PATH GOTOOLCHAIN=local GOFLAGS=-mod=mod GOPROXY=off GOWORK=off go mod vendor) || exit 1
fail=0
for id in $(./bin/rlcheck list 2>/dev/null || true); do :; done
./check C08 >/dev/null 2>&1  # forces rebuild if sources changed
# the table renamed identifiers are resolved against (rlcheck/names.go) is the clean /repo HEAD's
if [ -z "$(git -C /repo status --porcelain)" ]; then
  ./bin/rlcheck dump-names --repo /repo > rlcheck/pinned_names.json.new && { cmp -s rlcheck/pinned_names.json.new rlcheck/pinned_names.json || cp rlcheck/pinned_names.json.new rlcheck/pinned_names.json; }
  rm -f rlcheck/pinned_names.json.new
  ./check C08 >/dev/null 2>&1
fi
for id in $(./bin/rlcheck list); do
  out=$(./check "$id" 2>&1); rc=$?
  echo "$out" | tail -1
  if [ $rc -ne 0 ]; then echo "$out" | grep -v KNOWN-FINDING | head -5; fail=1; fi
done
if [ $fail -ne 0 ]; then echo "NOT COMMITTED: a check fails on the unchanged tree"; exit 1; fi
python3 tools/gen_design_tables.py || exit 1
python3-vt - <<'PY' || exit 1
import json, jsonschema, glob
m=json.load(open('/verif/MANIFEST.json')); jsonschema.validate(m, json.load(open('/root/.vp/MANIFEST.schema.json')))
s=json.load(open('/root/.vp/EVIDENCE.schema.json'))
for c in m['checks']:
    jsonschema.validate(json.load(open(c['evidence_file'])), s)
print("manifest + %d evidence files valid" % len(m['checks']))
PY
git add -A && git commit -qm "$1" && git log --oneline -n1
