#!/usr/bin/env python3
"""Generate /verif/MANIFEST.json from the per-property table below.

Claimed properties = those with an entry in CLAIMS *and* implemented in rlcheck
(`bin/rlcheck list`). Everything else goes to not_applicable with its reason.
"""
import json, os, subprocess, sys

HERE = os.path.dirname(os.path.dirname(os.path.abspath(__file__)))

BASELINE = json.load(open('/root/.vp/BASELINE.json'))

TB = "Trusted: go/packages+go/types, go/ssa, VTA call graph, and the reviewed rule tables in /verif/rlcheck. Assumes no reflection/unsafe/linkname (inventoried)."

CLAIMS = {
 "C08": dict(
  level="other",
  technique="static analysis: who-may-call (call graph), dominating-guard facts, backward value slices and loop-exit inventory over go/ssa",
  text="Structural necessary conditions of 'recorded exactly once' are decided for every path of the current source: single write path, err==nil / !infer / non-blank / per-source duplicate guards dominate the append, the per-source loop has no early exit, limit polarity, infer/hold constants of each accept command, returned error is the guarding error. Value-level equality of recorded text for all inputs is not decided.",
  ref="§5 C08"),
}

CLAIMS["C11"] = dict(
  level="other",
  technique="static analysis: typestate/must-pass-through on the SSA CFG (MakeRaw→defer Restore pairing), backward value slices, dominance, table agreement; repeated per GOOS in the thorough tier",
  text="Decides, for every path of the current source, the pairing and ordering facts the property rests on: MakeRaw/defer Restore typestate with the same fd and state in every caller, the State snapshot is taken before modification and written back by Restore, deferred default-cursor-style print before the main loop, AcceptLine dominates every Accept and ends with CR LF, no nil-error dereference on the editor failure path; the missing fresh-row move on the panic exit is reported as a known finding. The terminal's resulting state itself is not decided. The AcceptLine rule is stated on what computeCoordinates does under the flag AcceptLine passes (the suggested line is not measured), not on the literal.",
  ref="§5 C11")
CLAIMS["C13"] = dict(
  level="other",
  technique="static analysis: dominating-guard facts on the condition stack, must-depend (data+control dependence) slices, only-writer and argument-flow checks over go/ssa",
  text="Decides that every handler effect of the inputrc parser is dominated by the top-of-stack test, that the pushed/toggled condition depends on the enclosing level (violated on the pinned tree: known finding, pinned tests expect the leak), that keymap/sequence/action/macro flow unswapped into the bind table, and the $if form ↔ option field table. The full iff over all programs (scanner classification of tokens) is not decided. Known finding since round 6: ReloadConfig parses the user's file a first time for the application name `go` without mode or terminal (C13.parse-with-application-options).",
  ref="§5 C13")

CLAIMS["C18"] = dict(
  level="other",
  technique="static analysis: backward value slices (codec store/replay), constant-argument table, loop ordering (must-pass-through) on go/ssa",
  text="Decides the macro codec agreement (EscapeMacro on every store, Unescape on every replay path), tail feeding, RecordKeys-before-FlushUsed in every main-loop iteration, what the recorder stores, and that argument keys returned by ReadKey/Pop are recorded; reports the rune→byte narrowing of fed keys as known findings. Equality of buffer effects for all macros is not decided.",
  ref="§5 C18")
CLAIMS["C03"] = dict(
  level="other",
  technique="static analysis: table agreement between bind literals (type-checked constants) and the command registry; guard facts, must-pass-through and value slices on the dispatcher's SSA",
  text="Decides that every built-in bound action resolves to a registered command (or a frozen reviewed list of unimplemented names), that MatchMain/MatchLocal account for read keys exactly once with the right slices, that each dispatch iteration consumes one key, that the command looked up is the matched bind's and never a macro's, macro binds are re-fed decoded at the tail, and nil commands are not called. The prefix-matching semantics of matchBind are value-level and not decided. Also: falling back to a remembered shorter bind, the dispatcher takes only that bind's keys and hands the later ones back (C03.fallback-keeps-later-keys).",
  ref="§5 C03")

CLAIMS["C07"] = dict(
  level="other",
  technique="static analysis: must-pass-through on the SSA CFG, backward value slices from Line.Set/Cursor.Set to the saved-states list, memory-aware dominating guards on the undo index",
  text="Decides that every command run ends in a save, that Undo/Redo set their flags on every path, that only saved states are ever restored, that Save truncates the redo branch before appending the current text under !skip, that Reset re-arms correctly, and that the undo position is only decremented under pos >= 1 and each items[len-pos] read carries its clamp. The sequence semantics over all command histories are not decided. Also: Undo restarts its count of undone steps at 0 when it rewrites the list of states (C07.undo-position-restarts); Sources.Pos returns the number of undone steps (C07.pos-is-undone-count).",
  ref="§5 C07")
CLAIMS["C10"] = dict(
  level="other",
  technique="static analysis: constant open-flag table, single-write must-pass-through, value slices of the written bytes and returned error, loop-exit inventory of the reader, JSON key/field agreement from struct tags",
  text="Decides the mechanisms the durability property rests on for every path of the current source: O_APPEND|O_CREATE without O_TRUNC, exactly one write carrying record+terminator, tail inspection or separator before the write, truthful error, unbounded reader token size, tolerant read loop, writer/reader schema agreement. The enumeration of crash points and OS atomicity are not decided.",
  ref="§5 C10")

CLAIMS["C19"] = dict(
  level="other",
  technique="static analysis: writer/reader table extraction from SSA (case constants, emitted constants, consumed length), constant propagation through Encontrol, format-verb and guard checks, value slices of dump output",
  text="Decides agreement of the escape writer's table with the unescape reader's cases (same rune, same consumed length), the hex fallback's verb/bound/composition, that numeric reader cases consume the digits they decode, that dumps escape what they print and spell booleans as the parser reads them. Round-trip equality for all strings is value-level and not decided. Also: the function dump leaves macros out (C19.dump-functions-skip-macros).",
  ref="§5 C19")

CLAIMS["C06"] = dict(
  level="other",
  technique="static analysis: effect reachability over the VTA call graph against an inventory of primitive core.Line writes (with fresh-receiver and constant-parameter refinement), must-pass-through and only-writer checks",
  text="For the movement/copy clause the check is sufficient: none of the 51 tabled commands can reach a primitive write to a shared core.Line except reviewed (command, site) pairs, so they cannot change the text (modulo call-graph soundness, inventoried). Also decides the post-command cursor check, the API clamps' presence, and that the returned line is the buffer at acceptance. It does not decide 0<=pos<=len for all command sequences. Also: init puts the cursor on a character in Vi command mode after history.Init installed a kept line (C06.init-clamps).",
  ref="§5 C06")
CLAIMS["C09"] = dict(
  level="other",
  technique="static analysis: effect reachability (navigation commands vs history writers), sibling agreement of GetLine bounds guards, error-guard facts at call sites, backward value slices into Line.Set",
  text="Sufficient for 'never modifies them': no navigation/search command can reach a history writer. Decides that every GetLine implementation is total and every call site checks the error before using the line, that the buffer only ever receives stored entries or saved states, and that Walk saves/restores the in-progress text. Order of entries and matching semantics are not decided. Also: a search text that does not compile is still given a matcher before the candidates are filtered; end-of-history walks past the newest entry; after a search-mode switch the cursor is not moved through stale pointers. Also (rounds 6/7): saved line states are keyed by an index computed from Source.Len() (C09.line-state-key); a forward search with nothing newer restores the typed line like Walk does, never with Undo (C09.search-down-restores); the closing save is skipped once Accept has written the line (C09.no-save-after-growth); the incremental search selects a candidate or restores the typed text on every path (C09.isearch-restores-when-nothing-inserted); the position kept with a state is not pulled onto the last character (C09.saved-position-not-narrowed).",
  ref="§5 C09")

CLAIMS["C16"] = dict(
  level="other",
  technique="static analysis: per-command idiom classification of what Buffers.Write stores (value slices, same-SSA-bounds pairing with Line.Cut, loop accumulation order), must-pass-through, ring-slot constant agreement",
  text="Decides for each named kill command that what is stored is structurally what is removed (four accepted idioms), that every removing path records, that Selection.Cut reads before it mutates, that yank/put insert only the active buffer and that Write and Active use the same ring slot. Text equality after kill+yank for all buffers is not decided. Also: vi-delete cuts only while the cursor is before the end of the line; Line.Insert never keeps the slice it was given (the kill buffer). Also: DropUnused runs after the reset that clears the flag it tests; a kill always lands on top of the ring, whatever its size (C16.ring-top-written).",
  ref="§5 C16")
CLAIMS["C17"] = dict(
  level="other",
  technique="static analysis: sibling cross-check of the vi operators on go/ssa (guard facts per branch, must-pass-through, shape of the range expression), effect reachability for yank, table agreement of the adjustment list",
  text="Decides that delete/yank/change follow one operator protocol (same adjustment before the read, same range expression over one Selection.Pos() call, same line-wise rule), that yank cannot write the buffer, the pending-operator protocol in execute/Pending/RunPending, and that the adjustment table names registered commands. Which range each motion marks is not decided. Also: checkRange never turns a given end into -1; every doubled-operator branch cancels the pending operator (sibling agreement); the suggested history line is not taken as an operator's motion.",
  ref="§5 C17")

CLAIMS["C14"] = dict(
  level="other",
  technique="static analysis: receiver/only-writer checks on the virtual line, shape and ordering of the Move/Cut/InsertAt triple (sibling agreement), guard facts in abort, must-pass-through in the main loop",
  text="Decides that candidate insertion edits only a fresh copy of the line, that both insertion paths replace exactly [pos-len(prefix), pos) by the prepared candidate, that cancelling restores the virtual line from the real one, that abort only cancels while a completion is active, and that UpdateInserted separates the two keymap dispatches. Unit correctness of len(prefix) and text equality are not decided here (unit findings are reported separately). Also: the prefix is looked up from Pos()-1 unclamped; abort does not return while the menu-select keymap is active; Select enters the menu keymap before the selector moves; TrimSuffix removes the character before the cursor only when the candidate's suffix matcher designates it; wherever a candidate becomes part of the real line the prefix is emptied before returning (accept-and-menu-complete). Also (rounds 6/7): every generation writes Engine.prefix afresh (C14.prefix-fresh); Ctrl-C is bound to abort in the local keymaps installed by loadBuiltinBinds (C14.abort-bound-everywhere); as-you-type completions are regenerated on every redisplay (C14.autocomplete-every-redisplay); the application's PREFIX is taken untrimmed (C14.given-prefix-untrimmed); a restored cursor position is set after the restored line (C14.cursor-after-line).",
  ref="§5 C14")

CLAIMS["C01"] = dict(
  level="other",
  technique="static analysis: whole-module inventories over go/ssa and the VTA call graph — loop termination variants (P1–P5 + reviewed table with re-checked conditions), call-graph SCCs, explicit panics, nil-contradiction and nil-call guards, divisor guards, input-buffer length guards, read-error propagation, channel-send protocol; zone-domain abstract interpretation (difference constraints, contracts, state getters, class invariants, effect summaries over the call graph) proving every index and slice bound of the commands and editing primitives non-negative; the same prover on every package but inputrc (C12) and the completion menu grid, with the upper bound and ordering clauses, heap length terms for the shared line, and a self-test of the engine on synthetic unsafe functions; who-may-write / budget rules for the fed-key queue and the active history source",
  text="Decides necessary conditions of 'never crashes, spins or deadlocks' for every function reachable from Readline, the commands and the exported API: each loop has a termination variant or a reviewed ranking argument, each recursion a checked bound, no explicit panic, no unguarded nil call / nil dereference after a nil comparison / variable division / input-buffer index, read errors leave the wait loop and reach the caller, sends cannot block in the sequential flow (the cursor-report hand-off is a known finding); every index and slice bound of the module outside inputrc (proved under C12) and the completion menu grid is in range — non-negative, below the length, ordered — proved by the bounds prover or listed with a reviewed reason (about 2 300 obligations); a macro that runs itself is cut off (feed budget), the numeric argument is capped (postcondition of Iterations.Get), the index of the active history source stays in range, a possibly-nil command is never called. Not decided: the completion menu grid (the C15 problem), panics inside application callbacks. Since round 6/7 also: a pointer field dereferenced under the sole guard that another field is not nil is never left nil alone (C01.paired-nil); a map field made on first use is written only under a nil test or after being made (C01.nil-map-write); the count given to strings.Repeat is never negative (C01.repeat-count).",
  ref="§5 C01, §13")

CLAIMS["C05"] = dict(
  level="other",
  technique="static analysis: only-reader inventory, path-complete byte-flow (must-pass-through + value slices) from each terminal read to the key buffer / hand-off / caller, dominating emptiness guards before a terminal read, ordering in the push-back functions; repeated for other unix GOOS in the thorough tier",
  text="Decides necessary conditions of chunking independence: no path drops or bypasses bytes that were read (readers and all consumers keep everything), ReadKey drains pending keys before reading, partially matched keys are pushed back in front with mustWait computed first, buffered keys are used without reading. Schedule independence as such is not decided. Also: bytes fresh from a terminal read are decoded to runes only up to their last whole character (C05.decode-whole-characters); every exit of dispatchCharacter reachable after a pop returns the popped bytes; known finding: abort's terminator query pops the keys typed behind the interrupt key (C05.terminator-query-consumes).",
  ref="§5 C05")

CLAIMS["C02"] = dict(
  level="other",
  technique="static analysis: backward value slice of what self-insert inserts, must-pass-through and branch-fact rules on the main dispatcher (multibyte character assembly), on TrimSuffix, Quote/unescapeRunes and Sources.Accept, byte/rune/column unit analysis (abstract interpretation over go/ssa) on the insertion path, ordering check in Line.Insert, bind-table constants of the default keymaps",
  text="Decides that self-insert inserts exactly the caller key on every non-autopair path; that the main dispatcher assembles a multibyte UTF-8 character no bind knows from the key queue, binds it whole to self-insert and waits for its last bytes (necessary because binds are matched byte-wise and hold no lead byte); that TrimSuffix removes text only for a registered suffix matcher; that Quote leaves an ordinary rune (a backslash included) alone; that Accept stores the buffer as the returned line on every path and run/Readline return it unmodified; that no column/byte quantity is used as a character position while inserting; that Line.Insert copies the tail before its in-place append; that every printable ASCII key is self-insert by default in emacs and vi-insert; and that meta conversion is guarded by convert-meta. Equality of returned and typed text for all inputs (value level) is not decided. Also: an orphan suffix matcher is dropped, not kept for a later line (C02.trim-orphan-dropped).",
  ref="§0, §5 C02")
CLAIMS["C04"] = dict(
  level="other",
  technique="static analysis: byte/rune/column unit analysis over every function of the redisplay path, recompute-before-paint and clear-after-newline ordering (must-pass-through), only-writer check of the coordinate fields, agreement of the tab-expansion constants of the printing and measuring functions",
  text="Decides that coordinates are recomputed before every use in Refresh/AcceptLine, that only computeCoordinates writes them, that no byte count is used as a rune index or as a column count anywhere on the display path (which is what misplaces the cursor or leaves remnants for multi-byte / double-width text), that a tab is measured as the same blanks it is printed as, and that the row entered when a line fills the width exactly is cleared. The painted grid itself needs a terminal model and is not decided. Round 5 added the conditions found with a terminal emulator in triage: no clear-to-end-of-row after a full row, the full-row test depends on more than lineCol, LineSpan does not divide a width that depends on the text, the multiline column always comes back down, hint lines are counted one row each, LastUsed is the prompt width, each printed line went through ClearWrapped. Multi-line buffers with wrapped or exactly full lines, and the secondary prompt's row, are NOT decided (known deviations, DESIGN §11). Also: completion.Display clears the screen below on every exit (C04.helpers-clear-below); the clear before a wrapped wide character is written only when the row is not full.",
  ref="§5 C04")
CLAIMS["C20"] = dict(
  level="other",
  technique="static analysis: goroutine inventory, per-thread-root reachability over the VTA call graph combined with an intraprocedural must-lockset analysis of every field access, writes-under-RLock, blocking-under-lock, lock pairing and re-entrancy checks, channel-send protocol",
  text="Decides which struct types are shared between the main loop, the resize goroutine and Printf without a common lock (the pinned design shares the whole editor state: known findings, one per struct type and thread pair), that no field is written under a read lock, that locks are paired and never re-entered, and that nothing blocks while Keys.mutex is held. Absence of races/deadlocks over all interleavings is not decided. Also (rounds 6/7): group.termWidth is asked from the terminal when the group is built, or written by every entry reaching the constructor (C20.resize-fresh-width); a regeneration does not write Engine.selected (C20.regeneration-keeps-selection); the primary prompt is printed only through the display engine, which records it (C20.prompt-print-recorded); ReadKey reads again after a read that only held a cursor position report (C20.readkey-skips-report-only-read).",
  ref="§5 C20")

CLAIMS["C12"] = dict(
  level="proof",
  technique="static analysis: zone-domain abstract interpretation over go/ssa (difference constraints on integer values and symbolic lengths, branch refinement, boolean-guarded facts, widening) with a modular contract table; plus panic / type-assertion / division / nil inventories and loop-variant and bounded-recursion checks",
  text="Every index and slice expression in the parser functions reachable from the parse entry points (over 850 obligations on this tree, including helper preconditions at call sites, postconditions at returns and the len(conds) >= 1 invariant) is proved in range; no explicit panic, unchecked assertion or unguarded division exists; every loop has a termination variant (or a reviewed argument whose structural condition is re-checked) and the $include recursion a checked depth bound written only by the nested-parse option and a too-deep error that ends every enclosing level (linear, not exponential, re-parsing). All obligations must be discharged for the proof level; the check drops to level other (and fails) otherwise. Proof is relative to the stated trusted base (the prover itself, contract/lemma tables, go/ssa, totality of the stdlib calls, a finite reader, returning handler callbacks); integer overflow and narrowing conversions are not modelled.",
  ref="§5 C12, Appendix B",
  note="Trusted base: rlcheck/zone.go (the abstract interpreter) and the contract table in rlcheck/c12.go; lemmas on strings.Index/HasPrefix/len; go/packages + go/ssa; totality of strconv/strings/unicode/bufio/fmt/bytes/os/user/filepath; a finite io.Reader; Handler callbacks return; Config maps non-nil; machine-integer overflow not modelled.")

CLAIMS["C15"] = dict(
  level="other",
  technique="static analysis: polynomial identities on the SSA slice bounds that cut the candidate list into rows (adjacent-tile / carve-loop rule, row-count idiom followed through the callers), exactly-once emission per loop iteration (cyclic-path rule on the CFG), must-pass-through ordering of the selector-bound writes after the last write of the rows, constant-argument table of the cycling commands, dominating branch facts and index algebra on the group walk",
  text="Decides structural necessary conditions of 'every candidate exactly once', NOT the cycle itself: (1) the grid is a partition of the candidate list — every cut of a candidate sequence in package completion is an indexed tile [lo(i):min(lo(i+1),len)] with lo(0)=0 filled for i=0..N-1 with N=ceil(len/width), or a carve loop emitting row[:k], keeping row[k:] with the same k and emitting the remainder; candidates sharing a description go to exactly one row on every path and every row is emitted once; (2) no value is dropped or duplicated between the completer's values and the groups; (3) maxY/maxX are written from the rows/columns after the last write of the rows in both grid constructors; (4) menu-complete, complete, accept-and-menu-complete step by (+1,0) and menu-complete-backward by (-1,0) through Engine.Select on every path; (5) Select leaves a finished group forward to the next group's first cell and backward to the previous group's last cell, the group walk wraps at both ends with the old flag cleared (the modular spelling is accepted), and the backward entry into an aliased group starts its search from the grid's last column. NOT decided: the visiting arithmetic inside one group (moveSelector / findFirstCandidate over a grid whose shape comes from run-time widths, ragged aliased rows, the column-major walk of aliased groups): no static argument in reach bounds it, so a change confined to that arithmetic is not detected (DESIGN.md §5 C15).",
  ref="§0, §5 C15")

NA_REASONS = {
}

def main():
    ids = subprocess.run([os.path.join(HERE, 'bin', 'rlcheck'), 'list'], capture_output=True, text=True).stdout.split()
    props = [json.loads(l) for l in open(os.path.join(HERE, 'properties.jsonl'))]
    checks, na = [], []
    for p in props:
        pid = p['id']
        if pid in CLAIMS and pid in ids:
            c = CLAIMS[pid]
            checks.append({
                "property_id": pid,
                "quick_cmd": f"./check {pid} --tier quick",
                "thorough_cmd": f"./check {pid} --tier thorough",
                "evidence_file": f"/verif/evidence/{pid}.json",
                "replay_cmd_template": f"./check {pid} --explain {{path}}",
                "engine": "rlcheck",
                "level_claimed": {"category": c['level'], "text": c['text'], "design_ref": "DESIGN.md " + c['ref']},
                "level_note": c.get('note', TB),
                "technique": c['technique'],
            })
        else:
            na.append({"property_id": pid, "reason": NA_REASONS.get(pid, "static check for this property is not built yet in this snapshot of /verif (planned in DESIGN.md §5); nothing is claimed until it exists")})
    m = {
        "version": 1,
        "setup_cmd": "cd /verif/rlcheck && PATH=/opt/veriftools/go1.26.8/bin:$PATH GOTOOLCHAIN=local GOPROXY=off GOWORK=off GOSUMDB=off GOFLAGS=-mod=vendor go build -o /verif/bin/rlcheck .",
        "hooks": {
            "guard": "verif",
            "enable": "none needed: every check is a source-only static analysis of /repo's working tree; no hook code exists in /repo",
            "baseline_off_cmd": "cd /repo && go test -vet=off -count=1 -timeout 25m ./...",
            "source_commits": [],
            "add_only": True,
        },
        "engines": [{
            "name": "rlcheck",
            "path": "/verif/rlcheck",
            "serves_properties": [c['property_id'] for c in checks],
            "kind_free_text": "repository-specific static analyser over go/packages + go/ssa + VTA call graph (rule kinds K1–K10, DESIGN.md §4); never executes /repo code",
        }],
        "checks": checks,
        "not_applicable": na,
        "notes": "All checks are static analyses (no /repo code is executed). Genuine defects found by the rules are either repaired by 'fix:' commits in /repo or listed in /verif/known_findings.jsonl (see DESIGN.md §6).",
    }
    json.dump(m, open(os.path.join(HERE, 'MANIFEST.json'), 'w'), indent=1)
    print(f"MANIFEST.json: {len(checks)} checks, {len(na)} not_applicable")

if __name__ == '__main__':
    main()
